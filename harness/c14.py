"""C14 — file writing never clobbers or half-writes, and files read back as written."""
import gzip
import hashlib
import importlib.util
import inspect
import json
import locale
import os
import re
import shutil
import tempfile
import warnings

from .common import VERIF
from .runner import PropertyCheck

OLD = b'precious old content, longer than anything a test case writes (an overwrite must replace ALL of it)\n' * 2000
BYSTANDER = b'bystander\n'
FORMATS = ('ds9', 'crtf', 'fits')
STATES = ('absent', 'file', 'empty', 'symlink', 'symlink_empty', 'dangling', 'chain', 'loop')
TEXT_FORMATS = ('ds9', 'crtf')

# ---------------------------------------------------------------- region specs (JSON-able)

OK_POOL = {
    'ds9': [
        {'t': 'pc', 'x': 1.5, 'y': 2.25, 'r': 3.5},
        {'t': 'pe', 'x': 10.0, 'y': 4.5, 'w': 6.0, 'h': 2.5, 'a': 30.0},
        {'t': 'pr', 'x': 3.0, 'y': 4.0, 'w': 5.0, 'h': 2.0, 'a': 0.0},
        {'t': 'pp', 'xs': [1.0, 2.0, 3.5], 'ys': [1.0, 4.0, 2.5]},
        {'t': 'ppt', 'x': 7.0, 'y': 8.0},
        {'t': 'sc', 'frame': 'icrs', 'lon': 10.5, 'lat': -20.25, 'r': 0.5},
        {'t': 'sc', 'frame': 'galactic', 'lon': 120.0, 'lat': 5.0, 'r': 1.25},
        {'t': 'se', 'frame': 'fk5', 'lon': 30.0, 'lat': 40.0, 'w': 2.0, 'h': 1.0, 'a': 15.0},
        {'t': 'pc', 'x': 5.0, 'y': 6.0, 'r': 1.0, 'label': 'alpha'},
    ],
    'crtf': [
        {'t': 'sc', 'frame': 'icrs', 'lon': 10.5, 'lat': -20.25, 'r': 0.5},
        {'t': 'sc', 'frame': 'fk5', 'lon': 200.0, 'lat': 45.0, 'r': 1.25},
        {'t': 'se', 'frame': 'fk5', 'lon': 30.0, 'lat': 40.0, 'w': 2.0, 'h': 1.0, 'a': 15.0},
        {'t': 'sr', 'frame': 'fk5', 'lon': 50.0, 'lat': -10.0, 'w': 2.0, 'h': 1.0, 'a': 0.0},
        {'t': 'sp', 'frame': 'fk5', 'lons': [10.0, 11.0, 10.5], 'lats': [1.0, 1.0, 2.0]},
    ],
    'fits': [
        {'t': 'pc', 'x': 1.5, 'y': 2.25, 'r': 3.5},
        {'t': 'pe', 'x': 10.0, 'y': 4.5, 'w': 6.0, 'h': 2.5, 'a': 30.0},
        {'t': 'pr', 'x': 3.0, 'y': 4.0, 'w': 5.0, 'h': 2.0, 'a': 10.0},
        {'t': 'pp', 'xs': [1.0, 2.0, 3.5], 'ys': [1.0, 4.0, 2.5]},
        {'t': 'ppt', 'x': 7.0, 'y': 8.0},
        {'t': 'pa', 'x': 1.0, 'y': 2.0, 'ri': 1.5, 'ro': 3.0},
    ],
}
# elements that a format cannot serialise (raise or skip — whatever the code does is recorded)
INJECT = {
    'compound': {'t': 'compound'},
    'sky': {'t': 'sc', 'frame': 'icrs', 'lon': 1.0, 'lat': 2.0, 'r': 3.0},
    'pixel': {'t': 'pc', 'x': 1.0, 'y': 2.0, 'r': 3.0},
    'oddframe': {'t': 'sc', 'frame': 'precessedgeocentric', 'lon': 1.0, 'lat': 2.0, 'r': 3.0},
    'line': {'t': 'pl', 'x0': 1.0, 'y0': 2.0, 'x1': 3.0, 'y1': 4.0},
    'surrogate': {'t': 'ptext', 'x': 1.0, 'y': 2.0, 'text': 'a\udcffb'},
    'surrogate_label': {'t': 'pc', 'x': 1.0, 'y': 2.0, 'r': 3.0, 'label': 'lab\udcff'},
    # DS9: `tag` must be a list; formatting the metadata of this element raises TypeError
    'badtag': {'t': 'pc', 'x': 1.0, 'y': 2.0, 'r': 3.0, 'tag': 5},
    # FITS: a `component` that cannot be combined with the auto-numbered components of the other rows;
    # raises only next to at least one other kept row ('ctx': kind probed beside a neutral companion)
    'badcomp': {'t': 'pc', 'x': 1.0, 'y': 2.0, 'r': 3.0, 'component': 'a', 'ctx': True},
    'sky_surrogate': {'t': 'stext', 'frame': 'fk5', 'lon': 1.0, 'lat': 2.0, 'text': 'a\udcffb'},
}
INJECT_FOR = {
    'ds9': ['compound', 'oddframe', 'badtag', 'surrogate', 'surrogate_label'],
    'crtf': ['compound', 'pixel', 'sky_surrogate'],
    'fits': ['compound', 'sky', 'line', 'badcomp'],
}
# invalid serialiser / writer options
BAD_OPTS = {
    'ds9': [{'precision': 'x'}, {'precision': -1}, {'precision': 2.5}, {'bogus': 1}],
    'crtf': [{'coordsys': 'bogus'}, {'radunit': 'bogus'}, {'fmt': 'zz'}, {'bogus': 1}],
    'fits': [{'header': 5}, {'bogus': 1}],
}

# VALID options, falsy values included (an option must reach the serialiser as given: the destination holds
# serialize(regions, **the same options))
GOOD_OPTS = {
    'ds9': [{'precision': 0}, {'precision': 3}, {'precision': 12}],
    'crtf': [{'fmt': '.3f'}, {'radunit': 'arcsec'}, {'coordsys': 'galactic'}],
    # (a caller's header REPLACES the default one: it has to name the extension itself to stay a region file)
    'fits': [{'header': {'EXTNAME': 'REGION', 'OBSERVER': 'nobody'}}],
}

# bad options that must make every non-empty write fail (see the oracle)
MUST_FAIL = {
    'ds9': [{'precision': 'x'}, {'precision': -1}, {'precision': 2.5}, {'bogus': 1}],
    'crtf': [{'coordsys': 'bogus'}, {'bogus': 1}],
    'fits': [{'header': 5}, {'bogus': 1}],
}


def build(spec):
    """a fresh region object from a spec."""
    import astropy.units as u
    from astropy.coordinates import SkyCoord
    import regions as R
    t = spec['t']
    md = {}
    if 'label' in spec:
        md['text'] = spec['label']
    if 'tag' in spec:
        md['tag'] = spec['tag']
    if 'component' in spec:
        md['component'] = spec['component']
    kw = {'meta': R.RegionMeta(md)} if md else {}

    def sky(lon, lat):
        fr = spec['frame']
        if fr == 'precessedgeocentric':
            return SkyCoord(lon, lat, unit='deg', frame='fk5').transform_to('precessedgeocentric')
        if fr == 'galactic':
            return SkyCoord(l=lon, b=lat, unit='deg', frame='galactic')
        return SkyCoord(lon, lat, unit='deg', frame=fr)
    if t == 'pc':
        return R.CirclePixelRegion(R.PixCoord(spec['x'], spec['y']), spec['r'], **kw)
    if t == 'pe':
        return R.EllipsePixelRegion(R.PixCoord(spec['x'], spec['y']), spec['w'], spec['h'], angle=spec['a'] * u.deg, **kw)
    if t == 'pr':
        return R.RectanglePixelRegion(R.PixCoord(spec['x'], spec['y']), spec['w'], spec['h'], angle=spec['a'] * u.deg, **kw)
    if t == 'pp':
        return R.PolygonPixelRegion(R.PixCoord(spec['xs'], spec['ys']), **kw)
    if t == 'ppt':
        return R.PointPixelRegion(R.PixCoord(spec['x'], spec['y']), **kw)
    if t == 'pa':
        return R.CircleAnnulusPixelRegion(R.PixCoord(spec['x'], spec['y']), spec['ri'], spec['ro'], **kw)
    if t == 'pl':
        return R.LinePixelRegion(R.PixCoord(spec['x0'], spec['y0']), R.PixCoord(spec['x1'], spec['y1']), **kw)
    if t == 'ptext':
        return R.TextPixelRegion(R.PixCoord(spec['x'], spec['y']), text=spec['text'], **kw)
    if t == 'stext':
        return R.TextSkyRegion(sky(spec['lon'], spec['lat']), text=spec['text'], **kw)
    if t == 'sc':
        return R.CircleSkyRegion(sky(spec['lon'], spec['lat']), spec['r'] * u.deg, **kw)
    if t == 'se':
        return R.EllipseSkyRegion(sky(spec['lon'], spec['lat']), spec['w'] * u.deg, spec['h'] * u.deg, angle=spec['a'] * u.deg, **kw)
    if t == 'sr':
        return R.RectangleSkyRegion(sky(spec['lon'], spec['lat']), spec['w'] * u.deg, spec['h'] * u.deg, angle=spec['a'] * u.deg, **kw)
    if t == 'sp':
        return R.PolygonSkyRegion(SkyCoord(spec['lons'], spec['lats'], unit='deg', frame=spec['frame']), **kw)
    if t == 'compound':
        return R.CirclePixelRegion(R.PixCoord(1.0, 2.0), 3.0) | R.CirclePixelRegion(R.PixCoord(4.0, 5.0), 6.0)
    raise ValueError(t)


def exc_name(e):
    if isinstance(e, OSError) and not isinstance(e, FileNotFoundError):
        return 'OSError'
    return type(e).__name__


def canon(v):
    import numpy as np
    from astropy.coordinates import SkyCoord
    from astropy.units import Quantity
    import regions as R
    if isinstance(v, R.PixCoord):
        return ('pix', repr(np.asarray(v.x, dtype=float).tolist()), repr(np.asarray(v.y, dtype=float).tolist()))
    if isinstance(v, SkyCoord):
        s = v.spherical
        return ('sky', v.frame.name, repr(np.asarray(s.lon.deg).tolist()), repr(np.asarray(s.lat.deg).tolist()))
    if isinstance(v, Quantity):
        return ('q', repr(np.asarray(v.value, dtype=float).tolist()), str(v.unit))
    if isinstance(v, (list, tuple)):
        return tuple(canon(x) for x in v)
    if isinstance(v, (int, float, np.integer, np.floating)):
        return ('n', repr(float(v)))
    return ('r', repr(v))


def dump(reg):
    parts = [type(reg).__name__]
    for p in reg._params:
        parts.append((p, canon(getattr(reg, p))))
    parts.append(('meta', sorted((k, canon(v)) for k, v in reg.meta.items())))
    parts.append(('visual', sorted((k, canon(v)) for k, v in reg.visual.items())))
    return repr(parts)


def _registry():
    import regions  # noqa: F401
    from regions import Region, Regions
    from regions.core.registry import RegionsRegistry as RR
    return RR, Region, Regions


def split_opts(fmt, opts):
    """(serialiser kwargs, writer-only kwargs, has a keyword the writer does not accept)"""
    RR, Region, Regions = _registry()
    wp = inspect.signature(RR.registry[(Regions, 'write', fmt)]).parameters
    sp = inspect.signature(RR.registry[(Regions, 'serialize', fmt)]).parameters
    bad_kw = any(k not in wp for k in opts)
    ser = {k: v for k, v in opts.items() if k in sp}
    wonly = {k: v for k, v in opts.items() if k in wp and k not in sp}
    return ser, wonly, bad_kw


def serialize_bytes(fmt, specs, ser_opts):
    """what the destination must contain: the real serialiser's output for a FRESH copy of the
    list (text formats: encoded like `open(filename, 'w')` would).  FITS: the table."""
    RR, Region, Regions = _registry()
    out = Regions([build(s) for s in specs]).serialize(format=fmt, **ser_opts)
    if fmt in TEXT_FORMATS:
        return out.encode(locale.getpreferredencoding(False))
    return out


def table_sig(tbl):
    """canonical content of a (Q)Table: column names, units, values."""
    import numpy as np
    out = []
    for name in tbl.colnames:
        col = tbl[name]
        unit = str(getattr(col, 'unit', None) or '')
        vals = np.asarray(getattr(col, 'value', col))
        if vals.dtype.kind in 'SU':
            v = [(x.decode() if isinstance(x, bytes) else str(x)).strip() for x in vals.tolist()]
        else:
            v = np.asarray(vals, dtype=float).tolist()
        out.append((name, unit, repr(v)))
    return out


def snapshot(d):
    snap = {}
    for n in sorted(os.listdir(d)):
        p = os.path.join(d, n)
        if os.path.islink(p):
            snap[n] = ['link', os.path.basename(os.readlink(p))]
        elif os.path.isfile(p):
            with open(p, 'rb') as f:
                snap[n] = ['file', f.read()]
        else:
            snap[n] = ['other', '']
    return snap


class Check(PropertyCheck):
    id = 'C14'
    lean_targets = ['RegionsVerif.Props.C14']
    namespaces = ['RegionsVerif.Props.C14']
    parallel = True
    rule = ('every case runs in a fresh temporary directory (removed afterwards): formats {ds9, crtf, fits} x destination '
            'state {absent, existing file, existing EMPTY file, symlink to a file, symlink to an empty file, dangling symlink, '
            'two-link chain, self-referential symlink} '
            'x overwrite {False, True} (full product) x region lists of length 0-4 with an unserialisable element injected '
            'at each position (genuinely failing: a non-list `tag` for DS9, compound / pixel region for CRTF, a `component` that clashes '
            'with the auto-numbered rows for FITS [needs one other row], text that cannot be encoded; skipped with a warning: compound / '
            'unsupported frame for DS9, sky / line / compound for FITS) or an invalid option (precision/coordsys/radunit/fmt/header, unknown keyword) '
            'x Region.write vs Regions.write x every extension registered for auto-identification (lower and upper case), '
            'format given / inferred / unknown, names without a registered extension, names carrying another format\'s extension. '
            'After a successful write: read with the format given, inferred from the extension, inferred from the content of a '
            'renamed copy, of a gzip-compressed copy with the .gz extension and of a renamed gzip copy. '
            'Every path of the directory is compared before/after (existence, link target, bytes). '
            'Non-trivial = the destination existed, or an element/option was injected, or a read-back was done.')
    assumptions = [
        'OS semantics are a parameter of the model: atomic path names in one directory, absolute symlink targets, '
        'open(path,"w") follows symlinks and creates-or-truncates, os.remove unlinks the link itself, writes are total '
        '(no short writes, no disk-full, no permissions, no concurrent writers); the real run exercises the real OS',
        'astropy.io.fits writeto(overwrite) is a parameter with the laws WritetoLaw (refuse an existing non-empty file, '
        'atomic on failure, content, frame); astropyWriteto is the behaviour observed in astropy 8 '
        '(exists-and-non-empty test, os.remove then open) and is proved to satisfy them',
        'the serialisers, the text encoder (locale encoding), BinTableHDU(header=…), the parsers/readers and gzip '
        'transparency of get_readable_fileobj / fits.open are parameters (properties C09-C12 are about them)',
        'fits.open succeeds exactly on content starting with astropy\'s FITS_SIGNATURE (checked by the extractor on a '
        'minimal FITS file and on non-FITS contents)',
        'str.lower() = ASCII lower-casing on the file names used',
    ]
    validated_only = [
        'that the per-element kinds (serialisable / skipped / raises) compose: a list fails iff one of its elements fails alone '
        '(validated by the run: kinds are probed per element, the list outcome is compared)',
        'which exception class is reported when a list contains elements failing with DIFFERENT classes (CRTF serialises in two '
        'passes); only "it raises one of them and nothing is touched" is compared then',
        'byte-level content of a FITS file: compared with a reference write of the same regions to a fresh path and as a table '
        'with the serialised table; the bytes astropy produces are astropy\'s',
        'read-back equality itself (Regions.read(path) == Regions.parse(Regions.serialize(...)) by == and by a canonical dump) '
        'is validated on every successful case; the theorem read_back reduces it to the reader parameter',
        'content inference is only claimed for files that carry a signature: an empty DS9 file (empty region list) has none '
        'and is not identifiable by content (observed: IORegistryError, same in the model)',
    ]

    def __init__(self):
        self._memo = {}

    # ---------------------------------------------------------------- tie T
    def translate(self):
        path = os.path.join(VERIF, 'tools', 'c14_extract.py')
        spec = importlib.util.spec_from_file_location('c14_extract', path)
        mod = importlib.util.module_from_spec(spec)
        spec.loader.exec_module(mod)
        info, problems = mod.run()
        self._extract_info = info
        return problems

    # ---------------------------------------------------------------- generation
    # the extensions registered for auto-identification on writing (documented; fixed here, not learnt
    # from the code under test)
    WRITE_EXTS = {'ds9': ['.ds9', '.reg'], 'crtf': ['.crtf'], 'fits': ['.fits', '.fit', '.fts']}

    def _exts(self):
        return {k: list(v) for k, v in self.WRITE_EXTS.items()}

    def generate(self, rng, tier):
        mult = 1 if tier == 'quick' else 8
        exts = self._exts()
        cases = []

        def base_list(fmt, n):
            items = [dict(rng.choice(OK_POOL[fmt])) for _ in range(n)]
            if fmt == 'fits' and n >= 2 and rng.random() < 0.35:
                # explicit FITS component numbers that are NOT ascending (descending, or only on a later row):
                # the file must hold the rows in the order of the serialised table
                if rng.random() < 0.5:
                    for i, it in enumerate(items):
                        it['component'] = n - i
                else:
                    items[-1]['component'] = 1
            return items

        def mk(fmt, state, ow, inj='none', opts=None, n=None, pos=None, api=None, name=None, fmt_arg='given', npos=1):
            n = rng.randint(0, 3) if n is None else n
            if INJECT.get(inj, {}).get('ctx') and n == 0:
                n, pos = 1, (None if pos is None else min(pos, 1))
            items = base_list(fmt, n)
            if inj == 'badcomp':
                # the clashing component is probed beside AUTO-numbered rows only (beside rows that all carry explicit
                # numbers nothing is combined and the invalid value is written out as it is: outside this check's domain)
                for it in items:
                    it.pop('component', None)
            positions = []
            if inj not in ('none', 'opts', 'goodopts'):
                for _ in range(npos):
                    k = rng.randint(0, len(items)) if pos is None else pos
                    items.insert(k, dict(INJECT[inj]))
                    positions.append(k)
            if name is None:
                e = rng.choice(exts[fmt])
                name = 'x' + e
                if rng.random() < 0.2:
                    name = name.upper()
            if api is None:
                api = 'Region' if (len(items) == 1 and rng.random() < 0.6) else 'Regions'
            if api == 'Region' and len(items) != 1:
                api = 'Regions'
            return {'kind': 'write', 'fmt': fmt, 'state': state, 'ow': ow, 'inj': inj, 'pos': positions,
                    'opts': opts or {}, 'items': items, 'api': api, 'name': name,
                    'fmt_arg': fmt if fmt_arg == 'given' else (None if fmt_arg == 'infer' else fmt_arg)}

        # 1. full product formats x states x overwrite x injection class
        for fmt in FORMATS:
            for state in STATES:
                for ow in (False, True):
                    for _ in range(2 * mult):
                        cases.append(mk(fmt, state, ow, fmt_arg=rng.choice(['given', 'infer'])))
                    for inj in INJECT_FOR[fmt]:
                        for _ in range(2 * mult):
                            cases.append(mk(fmt, state, ow, inj=inj, fmt_arg=rng.choice(['given', 'infer'])))
                    for o in BAD_OPTS[fmt]:
                        for _ in range(mult):
                            cases.append(mk(fmt, state, ow, inj='opts', opts=dict(o), n=rng.randint(0, 2)))
                    for o in GOOD_OPTS[fmt]:
                        c = mk(fmt, state, ow, inj='goodopts', opts=dict(o), n=rng.randint(1, 3),
                               fmt_arg=rng.choice(['given', 'infer']))
                        if o == {'precision': 0}:
                            # sizes of at least one printed unit (a size that prints as 0 cannot be read back: F19 of C09)
                            c['items'] = [{'t': 'pc', 'x': 1.5, 'y': 2.25, 'r': 3.5},
                                          {'t': 'sc', 'frame': 'galactic', 'lon': 120.0, 'lat': 5.0, 'r': 1.25}][:max(1, len(c['items']))]
                            c['api'] = 'Regions'
                        cases.append(c)
        # 2. a failing element at EVERY position of lists of every length up to N, Region.write for singletons
        nmax = 3 if tier == 'quick' else 6
        for fmt in FORMATS:
            for inj in INJECT_FOR[fmt]:
                for n in range(0, nmax + 1):
                    for pos in range(0, n + 1):
                        cases.append(mk(fmt, rng.choice(STATES), True, inj=inj, n=n, pos=pos))
                        cases.append(mk(fmt, rng.choice(('file', 'symlink')), True, inj=inj, n=n, pos=pos,
                                        api='Region' if n == 0 else 'Regions'))
                # several failing elements (same kind, and mixed kinds)
                for _ in range(3 * mult):
                    cases.append(mk(fmt, rng.choice(STATES), rng.random() < 0.7, inj=inj, npos=2))
                for _ in range(2 * mult):
                    c = mk(fmt, rng.choice(STATES), True, inj=inj, n=2)
                    other = rng.choice(INJECT_FOR[fmt])
                    c['items'].insert(rng.randint(0, len(c['items'])), dict(INJECT[other]))
                    c['inj'] = 'mixed'
                    c['api'] = 'Regions'
                    cases.append(c)
        # 3. names: every registered extension (both cases) x format given / inferred, unregistered names,
        #    unknown format, another format's extension
        all_exts = sorted({e for v in exts.values() for e in v})
        for fmt in FORMATS:
            for e in exts[fmt]:
                for nm in ('x' + e, 'X' + e.upper(), 'my.file' + e):
                    for fa in ('given', 'infer'):
                        for api in ('Region', 'Regions'):
                            cases.append(mk(fmt, rng.choice(('absent', 'absent', 'file', 'dangling')), rng.random() < 0.5,
                                            n=1 if api == 'Region' else rng.randint(1, 3), api=api, name=nm, fmt_arg=fa))
            for nm in ('x.dat', 'x', 'x.reg.gz', 'x.txt', 'x.gz'):
                for fa in ('given', 'infer'):
                    if fmt == 'fits' and fa == 'given' and nm.endswith('.gz'):
                        continue   # astropy gzip-compresses FITS output by file name: astropy's business, not modelled
                    cases.append(mk(fmt, rng.choice(('absent', 'file')), rng.random() < 0.5, n=rng.randint(1, 2), name=nm, fmt_arg=fa))
            cases.append(mk(fmt, 'file', True, n=1, fmt_arg='bogus'))
            cases.append(mk(fmt, 'absent', False, n=1, fmt_arg='bogus'))
            for e in all_exts:
                if e not in exts[fmt]:
                    cases.append(mk(fmt, 'absent', False, n=rng.randint(1, 2), name='x' + e, fmt_arg='given'))
        rng.shuffle(cases)
        return cases

    # ---------------------------------------------------------------- probes (real code, memoised)
    def probe_item(self, fmt, spec, ser_opts):
        """kind of ONE element for a format's serialiser: ('ok'|'skip'|'bad', error class, encodable)"""
        key = ('item', fmt, json.dumps(spec, sort_keys=True), json.dumps(ser_opts, sort_keys=True, default=str))
        if key in self._memo:
            return self._memo[key]
        RR, Region, Regions = _registry()
        with warnings.catch_warnings():
            warnings.simplefilter('ignore')
            comp = [build(OK_POOL[fmt][0])] if spec.get('ctx') else []
            try:
                out = Regions(comp + [build(spec)]).serialize(format=fmt, **ser_opts)
            except Exception as e:
                res = ('bad', exc_name(e), True)
            else:
                if fmt == 'fits':
                    res = ('skip' if len(out) == len(comp) else 'ok', '', True)
                else:
                    try:
                        empty = Regions([]).serialize(format=fmt, **ser_opts)
                    except Exception:
                        empty = None
                    enc = True
                    try:
                        out.encode(locale.getpreferredencoding(False))
                    except UnicodeError:
                        enc = False
                    res = ('skip' if out == empty else 'ok', '', enc)
        self._memo[key] = res
        return res

    def probe_empty(self, fmt, ser_opts):
        """does the serialiser reject the OPTIONS themselves (it raises even for an empty list)?"""
        key = ('empty', fmt, json.dumps(ser_opts, sort_keys=True, default=str))
        if key in self._memo:
            return self._memo[key]
        RR, Region, Regions = _registry()
        res = None
        with warnings.catch_warnings():
            warnings.simplefilter('ignore')
            try:
                Regions([]).serialize(format=fmt, **ser_opts)
            except Exception as e:
                res = exc_name(e)
        self._memo[key] = res
        return res

    def probe_hdu(self, wonly):
        key = ('hdu', json.dumps(wonly, sort_keys=True, default=str))
        if key in self._memo:
            return self._memo[key]
        res = None
        if 'header' in wonly:
            from astropy.io import fits
            from astropy.table import QTable
            try:
                fits.BinTableHDU(data=QTable(), header=wonly['header'])
            except Exception as e:
                res = exc_name(e)
        self._memo[key] = res
        return res

    # ---------------------------------------------------------------- real
    def _reads(self, case):
        name = case['name']
        fmt = case['fmt']
        return [
            {'to': name, 'from': None, 'gz': False, 'fmt': fmt, 'mode': 'given'},
            {'to': name, 'from': None, 'gz': False, 'fmt': None, 'mode': 'infer_name'},
            {'to': 'copy.dat', 'from': name, 'gz': False, 'fmt': None, 'mode': 'infer_content'},
            {'to': name + '.gz', 'from': name, 'gz': True, 'fmt': None, 'mode': 'infer_gz_name'},
            {'to': 'copygz.dat', 'from': name, 'gz': True, 'fmt': None, 'mode': 'infer_gz_content'},
            {'to': 'copygz2.dat', 'from': name, 'gz': True, 'fmt': fmt, 'mode': 'given_gz'},
            # a gzip copy whose name ends in .gz but carries no registered extension before it
            {'to': 'backup.dat.gz', 'from': name, 'gz': True, 'fmt': None, 'mode': 'infer_gz_content_dotgz'},
            # the SAME absolute path in every case of this process (its content changes format from case to case):
            # anything remembered about a path from an earlier read must not survive
            {'to': 'reuse.dat', 'from': name, 'gz': False, 'fmt': None, 'mode': 'infer_content', 'fixed': True},
        ]

    def real(self, case):
        RR, Region, Regions = _registry()
        fmt = case['fmt']
        specs = case['items']
        ser_opts, wonly, bad_kw = split_opts(fmt, case['opts'])
        out = {}
        d = tempfile.mkdtemp(prefix='c14_')
        try:
            with warnings.catch_warnings():
                warnings.simplefilter('ignore')
                dest = os.path.join(d, case['name'])
                target = os.path.join(d, 'target.dat')
                with open(os.path.join(d, 'other.txt'), 'wb') as f:
                    f.write(BYSTANDER)
                st = case['state']
                if st == 'file':
                    with open(dest, 'wb') as f:
                        f.write(OLD)
                elif st == 'empty':
                    open(dest, 'wb').close()
                elif st in ('symlink', 'symlink_empty', 'dangling'):
                    if st == 'symlink':
                        with open(target, 'wb') as f:
                            f.write(OLD)
                    elif st == 'symlink_empty':
                        open(target, 'wb').close()
                    os.symlink(target, dest)
                elif st == 'chain':      # dest -> mid.lnk -> target.dat (a file)
                    with open(target, 'wb') as f:
                        f.write(OLD)
                    os.symlink(target, os.path.join(d, 'mid.lnk'))
                    os.symlink(os.path.join(d, 'mid.lnk'), dest)
                elif st == 'loop':       # dest -> dest (ELOOP)
                    os.symlink(dest, dest)
                if case.get('prelude', True):
                    # history: an EARLIER write in this process had its own options (a FITS header that renames the
                    # extension, a DS9 precision, CRTF units); none of them may colour the write under test
                    try:
                        scratch = os.path.join(d, 'earlier.fits')
                        Regions([build({'t': 'pc', 'x': 1.0, 'y': 2.0, 'r': 3.0})]).write(
                            scratch, format='fits', overwrite=True, header={'EXTNAME': 'SRCREG', 'OBSERVER': 'earlier'})
                        os.remove(scratch)
                        scratch = os.path.join(d, 'earlier.reg')
                        Regions([build({'t': 'pc', 'x': 1.0, 'y': 2.0, 'r': 3.0})]).write(scratch, format='ds9', overwrite=True, precision=1)
                        os.remove(scratch)
                    except Exception:
                        pass
                before = snapshot(d)
                regs = [build(s) for s in specs]
                kw = dict(case['opts'])
                # the destination as a pathlib.Path (when the format is named: inferring it from a Path is not supported)
                if case['fmt_arg'] in FORMATS and (len(case['name']) + len(specs) + int(case['ow'])) % 3 == 0:
                    import pathlib
                    dest = pathlib.Path(dest)
                try:
                    if case['api'] == 'Region':
                        regs[0].write(dest, format=case['fmt_arg'], overwrite=case['ow'], **kw)
                    else:
                        Regions(regs).write(dest, format=case['fmt_arg'], overwrite=case['ow'], **kw)
                    out['exc'] = None
                except Exception as e:
                    out['exc'] = exc_name(e)
                    out['msg'] = str(e)[:120]
                after = snapshot(d)

                # what the full list serialises to (fresh objects), for the oracle
                try:
                    full = serialize_bytes(fmt, specs, ser_opts)
                    out['ser'] = 'ok'
                except Exception as e:
                    full = None
                    out['ser'] = exc_name(e)
                # kinds of the elements, and the serialisation of the elements that are kept
                kinds = [self.probe_item(fmt, s, ser_opts) for s in specs]
                kept = [s for s, k in zip(specs, kinds) if k[0] == 'ok']
                kept_ids = [f'i{i}' for i, k in enumerate(kinds) if k[0] == 'ok']
                kept_ser = None
                if fmt in TEXT_FORMATS and (kept or not specs):
                    try:
                        kept_ser = serialize_bytes(fmt, kept, ser_opts)
                    except Exception:
                        kept_ser = None
                ref_bytes = None
                if fmt == 'fits' and any(v[0] == 'file' and v[1] not in (OLD, BYSTANDER, b'') for v in after.values()):
                    d2 = tempfile.mkdtemp(prefix='c14r_')
                    try:
                        Regions([build(s) for s in kept]).write(os.path.join(d2, 'ref.fits'), format='fits', **wonly)
                        with open(os.path.join(d2, 'ref.fits'), 'rb') as f:
                            ref_bytes = f.read()
                    except Exception:
                        ref_bytes = None
                    finally:
                        shutil.rmtree(d2, ignore_errors=True)

                def token(content):
                    if content == OLD:
                        return 'OLD'
                    if content == BYSTANDER:
                        return 'BY'
                    if content == b'':
                        return ''
                    if fmt in TEXT_FORMATS and kept_ser is not None and content == kept_ser:
                        return 'SER(' + fmt + ';' + ','.join(kept_ids) + ')'
                    if fmt == 'fits' and ref_bytes is not None and content == ref_bytes:
                        return 'SER(' + fmt + ';' + ','.join(kept_ids) + ')'
                    return 'sha1:' + hashlib.sha1(content).hexdigest()

                def tok_snap(snap):
                    return {n: ([v[0], token(v[1])] if v[0] == 'file' else list(v)) for n, v in snap.items()}
                out['before'] = tok_snap(before)
                out['after'] = tok_snap(after)
                out['unchanged'] = before == after
                # content of the destination as read through symlinks, against the full serialisation
                if out['exc'] is None:
                    try:
                        with open(dest, 'rb') as f:
                            content = f.read()
                    except OSError as e:
                        content = None
                        out['dest_read'] = exc_name(e)
                    if content is not None:
                        if fmt in TEXT_FORMATS:
                            out['content_ok'] = (full is not None and content == full)
                        else:
                            from astropy.table import QTable
                            try:
                                got = table_sig(QTable.read(dest, format='fits')) if len(full.colnames) else []
                                out['content_ok'] = (got == table_sig(full)) and content[:6] == b'SIMPLE'
                            except Exception as e:
                                out['content_ok'] = False
                                out['content_err'] = f'{type(e).__name__}: {e}'[:120]
                    # read-backs
                    try:
                        ref = Regions.parse(Regions([build(s) for s in specs]).serialize(format=fmt, **ser_opts), format=fmt)
                        ref_list = list(ref)
                        ref_dump = [dump(r) for r in ref_list]
                    except Exception as e:
                        ref_list = None
                        out['ref_err'] = exc_name(e)
                    reads = []
                    for r in self._reads(case):
                        q = os.path.join(d, r['to'])
                        if r.get('fixed'):
                            fixed_dir = os.path.join(tempfile.gettempdir(), f'c14_reuse_{os.getpid()}')
                            os.makedirs(fixed_dir, exist_ok=True)
                            q = os.path.join(fixed_dir, r['to'])
                        rec = {'mode': r['mode']}
                        if r['from'] is not None:
                            with open(os.path.join(d, r['from']), 'rb') as f:
                                data = f.read()
                            if r['gz']:
                                with gzip.open(q, 'wb') as g:
                                    g.write(data)
                            else:
                                with open(q, 'wb') as g:
                                    g.write(data)
                        try:
                            rec['ident'] = RR.identify_format(q, Regions, 'read')
                        except Exception as e:
                            rec['ident'] = '!' + exc_name(e)
                        try:
                            got = Regions.read(q, format=r['fmt'])
                            rec['result'] = 'ok'
                            gl = list(got)
                            rec['n'] = len(gl)
                            if ref_list is not None:
                                rec['eq'] = bool(gl == ref_list)
                                rec['dump_eq'] = [dump(x) for x in gl] == ref_dump
                        except Exception as e:
                            rec['result'] = '!' + exc_name(e)
                        reads.append(rec)
                    out['reads'] = reads
                    out['signed'] = bool(len(content or b'') > 0)
        finally:
            shutil.rmtree(d, ignore_errors=True)
            shutil.rmtree(os.path.join(tempfile.gettempdir(), f'c14_reuse_{os.getpid()}'), ignore_errors=True)
        return out

    # ---------------------------------------------------------------- model
    def _fs0(self, case):
        st = case['state']
        name = case['name']
        fs = [['other.txt', {'file': 'BY'}]]
        if st == 'file':
            fs.append([name, {'file': 'OLD'}])
        elif st == 'empty':
            fs.append([name, {'file': ''}])
        elif st in ('symlink', 'symlink_empty', 'dangling'):
            fs.append([name, {'link': 'target.dat'}])
            if st == 'symlink':
                fs.append(['target.dat', {'file': 'OLD'}])
            elif st == 'symlink_empty':
                fs.append(['target.dat', {'file': ''}])
        elif st == 'chain':
            fs += [[name, {'link': 'mid.lnk'}], ['mid.lnk', {'link': 'target.dat'}], ['target.dat', {'file': 'OLD'}]]
        elif st == 'loop':
            fs.append([name, {'link': name}])
        return fs

    def requests(self, case):
        fmt = case['fmt']
        ser_opts, wonly, bad_kw = split_opts(fmt, case['opts'])
        items = []
        for i, s in enumerate(case['items']):
            k, err, enc = self.probe_item(fmt, s, ser_opts)
            items.append({'id': f'i{i}', 'kind': k, 'err': err, 'enc': enc})
        reads = self._reads(case)
        paths = sorted({case['name'], 'target.dat', 'other.txt', 'mid.lnk'})
        return [{'op': 'c14.case', 'api': case['api'], 'fs': self._fs0(case), 'name': case['name'],
                 'fmt': case['fmt_arg'], 'ow': case['ow'], 'badKw': bad_kw, 'items': items,
                 'encErr': 'UnicodeEncodeError', 'hduErr': self.probe_hdu(wonly),
                 'optErr': self.probe_empty(fmt, ser_opts), 'paths': paths,
                 'reads': [{'to': r['to'], 'from': r['from'], 'gz': r['gz'], 'fmt': r['fmt']} for r in reads]}]

    def model(self, case, replies):
        r = replies[0]
        if 'fail' in r:
            return {'fail': r['fail']}
        fs = {}
        for name, node in r['fs']:
            if node is None:
                continue
            if 'file' in node:
                c = node['file']
                m = re.search(r'SER\([a-z0-9]+;[^)]*\)$', c)
                fs[name] = ['file', m.group(0) if m else c]
            else:
                fs[name] = ['link', node['link']]
        out = {'exc': r['exc'], 'after': fs}
        if r['exc'] is None:
            out['reads'] = [{'ident': x['ident'], 'result': 'ok' if x['result'].startswith('PARSE(') else x['result'],
                             'parsed_as': (x['result'][6:].split(';', 1)[0] if x['result'].startswith('PARSE(') else None)}
                            for x in r['reads']]
        return out

    def _bad_classes(self, case):
        fmt = case['fmt']
        ser_opts, _, _ = split_opts(fmt, case['opts'])
        bad = {self.probe_item(fmt, s, ser_opts)[1] for s in case['items'] if self.probe_item(fmt, s, ser_opts)[0] == 'bad'}
        if self.probe_empty(fmt, ser_opts):
            bad.add(self.probe_empty(fmt, ser_opts))
        return bad

    def equal(self, case, real, model):
        if 'fail' in model:
            return False
        if real['exc'] != model['exc']:
            bad = self._bad_classes(case)
            # several elements failing with different classes: which one is reported is not modelled
            if not (len(bad) > 1 and real['exc'] in bad and model['exc'] in bad):
                return False
        # every path of the directory, after the write (read-back copies are made later)
        if real['after'] != model['after']:
            return False
        if real['exc'] is None:
            for rr, mr in zip(real['reads'], model['reads']):
                if rr['ident'] != mr['ident']:
                    return False
                if rr['result'] != mr['result']:
                    # a reader applied to another format's content: the model's parser is total
                    if not (mr['result'] == 'ok' and mr['parsed_as'] != case['fmt']):
                        return False
                if rr['result'] == 'ok' and mr['result'] == 'ok' and mr['parsed_as'] == case['fmt']:
                    if rr.get('eq') is not True or rr.get('dump_eq') is not True:
                        return False
        return True

    # ---------------------------------------------------------------- Spec oracle: the property on the real before/after states
    def oracle(self, case, real):
        V = []
        fmt = case['fmt']
        name = case['name']

        def bad(kind, detail):
            V.append({'kind': kind, 'fmt': fmt, 'state': case['state'], 'ow': case['ow'], 'exc': real.get('exc'),
                      'inj': case['inj'],
                      'detail': f'{detail} :: fmt={fmt} name={name} fmt_arg={case["fmt_arg"]} state={case["state"]} ow={case["ow"]} '
                                f'api={case["api"]} inj={case["inj"]}@{case["pos"]} opts={case["opts"]} n={len(case["items"])} '
                                f'exc={real.get("exc")} before={real["before"]} after={real["after"]}'})
        before, after = real['before'], real['after']
        existed = name in before            # lexists: file, symlink to anything, dangling symlink
        ser_opts, wonly, bad_kw = split_opts(fmt, case['opts'])
        resolvable = case['fmt_arg'] in FORMATS or (case['fmt_arg'] is None and any(
            name.lower().endswith(e) for e in self._exts()[fmt]))
        # clause 1: an existing destination without overwrite=True is refused with OSError, nothing changes
        if existed and not case['ow'] and resolvable and not bad_kw:
            if real['exc'] is None:
                bad('existing_not_refused', 'destination existed, overwrite=False, the write went through')
            else:
                otherwise_valid = real.get('ser') == 'ok' and self.probe_hdu(wonly) is None
                if real['exc'] != 'OSError' and otherwise_valid:
                    bad('refused_with_wrong_exception', f'expected OSError, got {real["exc"]}')
                elif real['exc'] != 'OSError':
                    # double fault (the destination exists AND the write would fail anyway): the property's first
                    # clause has no exception for it - the refusal comes first
                    bad('refused_with_wrong_exception_double_fault', f'expected OSError, got {real["exc"]} (ser={real.get("ser")})')
        # an option the format's documentation rules out for EVERY region (MUST_FAIL: unknown keyword, DS9
        # precision that is not a non-negative integer, unknown CRTF coordsys, non-header FITS header) makes a
        # write of a non-empty, otherwise serialisable list FAIL (the property lists "bad option" among the
        # failures); the table is fixed here, not learnt from the code under test.  Options that are only
        # looked at for some shapes (CRTF radunit / fmt) are not in it.
        if case['inj'] == 'opts' and case['opts'] in MUST_FAIL[fmt] and len(case['items']) >= 1 and real['exc'] is None:
            bad('bad_option_accepted', 'the write went through although the option is invalid')
        # a destination with a registered extension is identified (format inferred from the name)
        if case['fmt_arg'] is None and resolvable and real.get('exc') == 'IORegistryError':
            bad('registered_extension_not_identified', f'write to {name} with the format inferred raised IORegistryError')
        # clause 2: a write that raises, for whatever reason, leaves every path as it was
        if real['exc'] is not None and not real['unchanged']:
            bad('failed_write_changed_fs', 'the write raised but the directory changed')
        # clause 3: a successful write: destination reads as serialize(regions); nothing else changed
        if real['exc'] is None:
            if real.get('content_ok') is not True:
                bad('content_wrong', f'destination does not contain serialize(regions): {real.get("content_err", real.get("dest_read"))}')
            written = {name}
            cur, hops = name, 0
            while before.get(cur, [None])[0] == 'link' and hops < 50:
                cur = before[cur][1]
                hops += 1
            written.add(cur)       # the end of the destination's symlink chain
            for n in set(before) | set(after):
                if n in written:
                    continue
                if before.get(n) != after.get(n):
                    bad('other_path_changed', f'{n}: {before.get(n)} -> {after.get(n)}')
            # clause 4: read-back
            own_ext = any(name.lower().endswith(e) for e in self._exts()[fmt])
            for r in real.get('reads', []):
                m = r['mode']
                required = (m in ('given', 'given_gz')
                            or (m in ('infer_name', 'infer_gz_name') and own_ext)
                            or (m in ('infer_content', 'infer_gz_content', 'infer_gz_content_dotgz') and real.get('signed')))
                if m in ('infer_name', 'infer_gz_name') and not own_ext:
                    # no extension of this format: inference falls back to the content signature
                    foreign = any(name.lower().endswith(e) for f2, es in self._exts().items() if f2 != fmt for e in es)
                    required = real.get('signed') and not foreign
                if not required:
                    continue
                if r['result'] != 'ok':
                    bad('read_back_failed', f'{m}: {r["result"]} (ident={r["ident"]})')
                elif r.get('eq') is not True or r.get('dump_eq') is not True:
                    bad('read_back_differs', f'{m}: eq={r.get("eq")} dump_eq={r.get("dump_eq")} n={r.get("n")}')
        return V

    def finding_match(self, finding, v):
        if finding.get('kind') != v.get('kind'):
            return False
        if finding['id'] == 'F18':
            # FITS has no lexists check: astropy writes through a dangling symlink / over an empty file
            return v['fmt'] == 'fits' and v['state'] in ('dangling', 'empty', 'symlink_empty') and v['ow'] is False
        if finding['id'] == 'F40':
            # text writers truncate the destination before encoding the text
            return v['fmt'] in TEXT_FORMATS and v['exc'] == 'UnicodeEncodeError'
        return False

    def nontrivial(self, case, real):
        return case['state'] != 'absent' or case['inj'] != 'none' or real.get('exc') is None

    def bucket(self, case, real):
        res = 'ok' if real.get('exc') is None else real['exc']
        return f"{case['fmt']}/{case['state']}/{'ow' if case['ow'] else 'noow'}/{case['inj']}/{res}"
