"""C06 — pixel<->sky conversion round-trips and membership is conversion-invariant.

Real side: real `astropy.wcs.WCS` objects (TAN/SIN/CAR, any rotation, pixel scales 0.01"-0.1deg,
both parities, ICRS/FK5/FK4/Galactic), every region class, pixel->sky->pixel and sky->pixel->sky,
`SkyRegion.contains` against the pixel image.

Model side: the WCS is a PARAMETER of the Lean model (`Impl/Wcs.lean`).  The harness samples
it: every position the real conversion touched goes into finite tables `p2s` / `s2p` (the real
converted coordinates) and `loc` (what the real `pixel_scale_angle_at_skycoord` returned at
that sky position); the model runs `to_sky` / `to_pixel` / `contains` on those tables in exact
rational arithmetic and must reproduce sizes/angles within 1e-9, centres/vertices exactly,
classes, meta and visual exactly, membership outside a boundary band.
"""
import copy
import math
import multiprocessing as mp
import operator
import os
from fractions import Fraction

import numpy as np

from . import regiongen as G
from .c01 import query_points
from .common import frac
from .runner import PropertyCheck, case_key

FRAMES = ['icrs', 'fk5', 'fk4', 'galactic']
PROJS = ['TAN', 'SIN', 'CAR']
ARCSEC = 1.0 / 3600.0
HISTORY_P = 0.4                      # fraction of cases whose region / WCS objects have a history (see 'history mode')
BAND = Fraction(1, 10 ** 6)          # relative distance to the boundary below which membership is not compared
# operators of compound regions.  Both constructors accept ANY callable; besides the three of the public API (&, |, ^) a small
# family of NON-COMMUTATIVE callables is used (the order of the two component answers matters).  Model name = "table:" +
# the truth table at (F,F), (F,T), (T,F), (T,T).
def cop_difference(a, b):            # a & ~b
    return np.logical_and(a, np.logical_not(b))


def cop_reverse_difference(a, b):    # ~a & b
    return np.logical_and(np.logical_not(a), b)


def cop_implication(a, b):           # ~a | b
    return np.logical_or(np.logical_not(a), b)


def cop_first(a, b):                 # a
    return a


OPS = {'and': operator.and_, 'or': operator.or_, 'xor': operator.xor,
       'table:0010': cop_difference, 'table:0100': cop_reverse_difference, 'table:1101': cop_implication, 'table:0011': cop_first}
OPNAME = {'and_': 'and', 'or_': 'or', 'xor': 'xor', 'cop_difference': 'table:0010', 'cop_reverse_difference': 'table:0100',
          'cop_implication': 'table:1101', 'cop_first': 'table:0011'}
STD_OPS = ['and', 'or', 'xor']
CUSTOM_OPS = ['table:0010', 'table:0100', 'table:1101', 'table:0011']


def gen_op(rng):
    return rng.choice(CUSTOM_OPS) if rng.random() < 0.4 else rng.choice(STD_OPS)


def op_value(op, a, b):
    if op in STD_OPS:
        return {'and': a and b, 'or': a or b, 'xor': a != b}[op]
    return op[len('table:'):][2 * int(a) + int(b)] == '1'


def spec_contains(d, x, y):
    """exact Spec membership and boundary margin (regiongen's for the simple classes; compounds with any of the operators above)."""
    if d['kind'] != 'compound':
        return G.spec_contains(d, x, y)
    a, ma = spec_contains(d['a'], x, y)
    b, mb = spec_contains(d['b'], x, y)
    r = op_value(d['op'], a, b)
    if not G.truthy(d.get('include', 'absent')):
        r = not r
    return r, min(ma, mb)


def operators_kept(a, b):
    """compound nodes whose `operator` object is not the SAME object after a conversion."""
    if not hasattr(a, 'operator') or not hasattr(b, 'operator'):
        return []
    return (([] if a.operator is b.operator else [getattr(a.operator, '__name__', repr(a.operator))])
            + operators_kept(a.region1, b.region1) + operators_kept(a.region2, b.region2))


def F(x):
    return Fraction(float(x))


# ------------------------------------------------------------------ WCS family

def gen_wcs(rng, projs=PROJS, frames=FRAMES, parities=(1, -1), log10_scale=(math.log10(0.01 * ARCSEC), -1.0), fine_p=0.0,
            latfirst_p=0.2):
    """a celestial WCS description; scale in deg / pixel (log-uniform); with probability `fine_p` a very fine pixel scale
    (1e-3 .. 1e-2 arcsec / pixel: the ~20 mas between ICRS and FK5 J2000 is then 2-20 pixels); with probability `latfirst_p`
    the LATITUDE is the first world axis (CTYPE1 = DEC-- / GLAT, CTYPE2 = RA--- / GLON), the same transformation otherwise."""
    if rng.random() < fine_p:
        log10_scale = (math.log10(1e-3 * ARCSEC), math.log10(1e-2 * ARCSEC))
    latfirst = rng.random() < latfirst_p
    d = _gen_wcs(rng, projs, frames, parities, log10_scale)
    d['latfirst'] = latfirst
    return d


def _gen_wcs(rng, projs, frames, parities, log10_scale):
    m = rng.random()
    if m < 0.15:
        rot = float(rng.choice([0, 90, 180, -90, 45, 30]))
    else:
        rot = rng.uniform(-180.0, 180.0)
    return {'proj': rng.choice(projs), 'frame': rng.choice(frames), 'lon0': rng.uniform(0.0, 360.0),
            'lat0': rng.uniform(-85.0, 85.0) if rng.random() < 0.85 else rng.choice([0.0, 84.9, -84.9, 45.0]),
            'rot': rot, 'scale': 10.0 ** rng.uniform(*log10_scale), 'parity': rng.choice(list(parities)),
            'crpix': [float(rng.randint(1, 2048)), float(rng.randint(1, 2048))], 'enc': rng.choice(ENCODINGS)}


def build_wcs(d):
    from astropy.wcs import WCS
    w = WCS(naxis=2)
    if d['frame'] == 'galactic':
        w.wcs.ctype = ['GLON-' + d['proj'], 'GLAT-' + d['proj']]
    else:
        w.wcs.ctype = ['RA---' + d['proj'], 'DEC--' + d['proj']]
        w.wcs.radesys = {'icrs': 'ICRS', 'fk5': 'FK5', 'fk4': 'FK4'}[d['frame']]
        if d['frame'] == 'fk5':
            w.wcs.equinox = 2000.0
        if d['frame'] == 'fk4':
            w.wcs.equinox = 1950.0
    w.wcs.crval = [d['lon0'], d['lat0']]
    if d.get('latfirst'):
        w.wcs.ctype = list(w.wcs.ctype)[::-1]
        w.wcs.crval = [d['lat0'], d['lon0']]
    w.wcs.crpix = list(d['crpix'])
    set_linear(w, d)
    w.wcs.set()
    return w


ENCODINGS = ['pc', 'cd', 'pcflip', 'crota']


def set_linear(w, d):
    """the linear part  CD = [[-s p cos t, s p sin t], [s sin t, s cos t]]  (s = pixel size, p = parity, t = rotation) written in
    one of the FITS-legal ways `d['enc']`: the SAME transformation (up to rounding) whatever the encoding —
      'pc'     CDELT = (-s p, s) and PC = rotation matrix                      (the default of this file's first version)
      'cd'     the full CD matrix, no CDELT / PC                               (HST / archive style; get_cdelt() = [1, 1])
      'pcflip' CDELT = (s, s) > 0, the parity flip inside PC
      'crota'  CDELT = (-s p, s) and CROTA2 = -p t                             (AIPS convention)
    Model and oracle never read these keywords: they see the WCS only through pixel<->world evaluations."""
    s_, p_, th = d['scale'], d['parity'], math.radians(d['rot'])
    c, sn = math.cos(th), math.sin(th)
    enc = d.get('enc', 'pc')
    if d.get('latfirst'):
        # latitude-first world axes: the rows of CD are exchanged (the same pixel -> sky map); written as a CD matrix or as
        # CDELT = (s, s) with everything else in PC
        m_ = [[s_ * sn, s_ * c], [-s_ * p_ * c, s_ * p_ * sn]]
        if enc == 'cd':
            w.wcs.cd = m_
        else:
            w.wcs.cdelt = [s_, s_]
            w.wcs.pc = [[v / s_ for v in row] for row in m_]
        return
    if enc == 'pc':
        w.wcs.cdelt = [-s_ * p_, s_]
        w.wcs.pc = [[c, -sn], [sn, c]]
    elif enc == 'cd':
        w.wcs.cd = [[-s_ * p_ * c, s_ * p_ * sn], [s_ * sn, s_ * c]]
    elif enc == 'pcflip':
        w.wcs.cdelt = [s_, s_]
        w.wcs.pc = [[-p_ * c, p_ * sn], [sn, c]]
    elif enc == 'crota':
        w.wcs.cdelt = [-s_ * p_, s_]
        w.wcs.crota = [0.0, -p_ * d['rot']]
    else:
        raise ValueError(enc)


def field_radius(wd, max_deg=25.0):
    """positions are drawn within this many pixels of CRPIX (a few hundred, fewer when the pixels are huge)."""
    return min(300.0, max_deg / wd['scale'])


def size_scale(rng, wd):
    return min(rng.choice([0.3, 1.0, 3.0, 10.0, 30.0]), 10.0 / (8.0 * wd['scale']))


# ------------------------------------------------------------------ meta / visual

def gen_meta(rng, p_empty=0.35):
    """{'include': …, 'rest': [[key, value], …]} – insertion ordered."""
    if rng.random() < p_empty:
        return {'include': 'absent', 'rest': []}
    rest = []
    for k in ['label', 'comment', 'text', 'name']:
        if rng.random() < 0.3:
            rest.append([k, rng.choice(['zz', 'src 1', '', 'α', 'bkg'])])
    if rng.random() < 0.2:
        rest.append(['tag', [rng.choice(['g1', 'g2'])]])
    return {'include': rng.choice(G.INCLUDES), 'rest': rest}


def gen_visual(rng, text=False, p_empty=0.4):
    rot = None
    if text and rng.random() < 0.7:
        rot = rng.choice([0.0, 30.0, -45.5, 370.0, rng.uniform(-360, 360)])
    elif rng.random() < 0.1:
        rot = float(rng.choice([15.0, 90.0]))
    if rng.random() < p_empty:
        return {'rotation': rot, 'rest': []}
    rest = []
    if rng.random() < 0.5:
        rest.append(['color', rng.choice(['red', 'blue', '#00ff00'])])
    if rng.random() < 0.3:
        rest.append(['linewidth', rng.choice([1, 2.5])])
    if rng.random() < 0.2:
        rest.append(['fontsize', 12])
    return {'rotation': rot, 'rest': rest}


def make_meta(m):
    from regions import RegionMeta
    out = RegionMeta()
    if m['include'] != 'absent':
        out['include'] = G.INCLUDE_VALUE[m['include']]
    for k, v in m['rest']:
        out[k] = copy.deepcopy(v)
    return out


def make_visual(v):
    from regions import RegionVisual
    out = RegionVisual()
    if v['rotation'] is not None:
        out['rotation'] = v['rotation']
    for k, val in v['rest']:
        out[k] = copy.deepcopy(val)
    return out


def canon_meta(m):
    inc = 'absent'
    rest = []
    for k, v in m.items():
        if k == 'include':
            inc = 'true' if v is True else 'false' if v is False else str(v)
        else:
            rest.append([k, repr(v)])
    return {'include': inc, 'rest': rest}


def canon_visual(v):
    rot = None
    rest = []
    for k, val in v.items():
        if k == 'rotation':
            rot = val
        else:
            rest.append([k, repr(val)])
    return {'rotation': rot, 'rest': rest}


def model_meta(m):
    return {'include': m['include'], 'rest': [[k, repr(v)] for k, v in m['rest']]}


def model_visual(v):
    return {'rotation': None if v['rotation'] is None else frac(F(v['rotation'])),
            'rest': [[k, repr(val)] for k, val in v['rest']]}


# ------------------------------------------------------------------ pixel regions: description, build, canon

PIX_KINDS = G.SIMPLE_KINDS + G.EMPTY_KINDS


def gen_pix_leaf(rng, wd, kind=None):
    kind = kind or rng.choice(PIX_KINDS)
    sc = size_scale(rng, wd)
    d = G.gen_simple(rng, kind=kind, scale=sc, center_scale=0, include='absent')
    if d.get('h', 0.0) > 8.0 * sc:          # regiongen's 1:100 aspect ratio: keep the long side inside the field
        d['h'] = d['w'] * 0.01
    R = field_radius(wd)
    r = R * math.sqrt(rng.random())
    t = rng.uniform(0, 2 * math.pi)
    shift_desc(d, wd['crpix'][0] - 1 + r * math.cos(t), wd['crpix'][1] - 1 + r * math.sin(t))
    d['meta'] = gen_meta(rng)
    d['include'] = d['meta']['include']
    d['visual'] = gen_visual(rng, text=(kind == 'text'))
    return d


def shift_desc(d, dx, dy):
    for key in ('c', 'a', 'b'):
        if key in d and isinstance(d[key], list):
            d[key] = [d[key][0] + dx, d[key][1] + dy]
    if 'v' in d:
        d['v'] = [[p[0] + dx, p[1] + dy] for p in d['v']]


def gen_pix_compound(rng, wd, depth):
    if depth == 0:
        return gen_pix_leaf(rng, wd, kind=rng.choice(G.SIMPLE_KINDS))
    a = gen_pix_compound(rng, wd, rng.randint(0, depth - 1))
    b = gen_pix_compound(rng, wd, rng.randint(0, depth - 1))
    # bring b next to a so that the combination is not trivially empty
    ca, cb = G.approx_center(a), G.approx_center(b)
    sa = min(G.approx_size(a), 60.0)
    move_desc(b, ca[0] - cb[0] + rng.uniform(-0.7, 0.7) * sa, ca[1] - cb[1] + rng.uniform(-0.7, 0.7) * sa)
    d = {'kind': 'compound', 'op': gen_op(rng), 'a': a, 'b': b}
    # how the constructor is called: explicit dictionaries, or None (= region1's)
    d['meta_arg'] = None if rng.random() < 0.35 else gen_meta(rng, p_empty=0.5)
    d['visual_arg'] = None if rng.random() < 0.5 else gen_visual(rng, p_empty=0.6)
    d['include'] = eff_meta(d)['include']
    return d


def move_desc(d, dx, dy):
    if d['kind'] == 'compound':
        move_desc(d['a'], dx, dy)
        move_desc(d['b'], dx, dy)
    else:
        shift_desc(d, dx, dy)


def eff_meta(d):
    """the meta a region has after construction (CompoundPixelRegion: None => region1's)."""
    if d['kind'] == 'compound':
        return d['meta_arg'] if d['meta_arg'] is not None else eff_meta(d['a'])
    return d['meta']


def eff_visual(d):
    if d['kind'] == 'compound':
        return d['visual_arg'] if d['visual_arg'] is not None else eff_visual(d['a'])
    return d['visual']


def build_pix(d):
    from regions import CompoundPixelRegion
    if d['kind'] == 'compound':
        a, b = build_pix(d['a']), build_pix(d['b'])
        return CompoundPixelRegion(a, b, OPS[d['op']],
                                   meta=None if d['meta_arg'] is None else make_meta(d['meta_arg']),
                                   visual=None if d['visual_arg'] is None else make_visual(d['visual_arg']))
    reg = G.build({k: v for k, v in d.items() if k not in ('meta', 'visual')} | {'include': 'absent'})
    reg.meta = make_meta(d['meta'])
    reg.visual = make_visual(d['visual'])
    return reg


def model_pix(d, reg):
    if d['kind'] == 'compound':
        return {'kind': 'compound', 'op': d['op'], 'a': model_pix(d['a'], reg.region1), 'b': model_pix(d['b'], reg.region2),
                'meta_arg': None if d['meta_arg'] is None else model_meta(d['meta_arg']),
                'visual_arg': None if d['visual_arg'] is None else model_visual(d['visual_arg'])}
    out = G.model(d, reg)
    out.pop('include', None)
    out['meta'] = model_meta(d['meta'])
    out['visual'] = model_visual(d['visual'])
    if d['kind'] == 'text':
        out['text'] = d.get('text', 'label')
    return out


PIX_CLS = {'CirclePixelRegion': 'circle', 'EllipsePixelRegion': 'ellipse', 'RectanglePixelRegion': 'rectangle',
           'PolygonPixelRegion': 'polygon', 'RegularPolygonPixelRegion': 'polygon',
           'CircleAnnulusPixelRegion': 'circle_annulus', 'EllipseAnnulusPixelRegion': 'ellipse_annulus',
           'RectangleAnnulusPixelRegion': 'rectangle_annulus', 'PointPixelRegion': 'point', 'LinePixelRegion': 'line',
           'TextPixelRegion': 'text', 'CompoundPixelRegion': 'compound'}
SKY_CLS = {k.replace('Pixel', 'Sky'): v for k, v in PIX_CLS.items() if k != 'RegularPolygonPixelRegion'}
SIZE_KEYS = {'circle': ['r'], 'ellipse': ['w', 'h'], 'rectangle': ['w', 'h'], 'circle_annulus': ['r1', 'r2'],
             'ellipse_annulus': ['w1', 'w2', 'h1', 'h2'], 'rectangle_annulus': ['w1', 'w2', 'h1', 'h2']}
SIZE_ATTR = {'r': 'radius', 'w': 'width', 'h': 'height', 'r1': 'inner_radius', 'r2': 'outer_radius',
             'w1': 'inner_width', 'w2': 'outer_width', 'h1': 'inner_height', 'h2': 'outer_height'}


def _dir(angle):
    return [F(np.cos(angle)), F(np.sin(angle))]


def canon_pix(reg):
    """real pixel region -> the layout of the model's JSON, numbers as Fractions."""
    cls = type(reg).__name__
    kind = PIX_CLS.get(cls, cls)
    out = {'kind': kind, 'cls': cls, 'meta': canon_meta(reg.meta), 'visual': canon_visual(reg.visual)}
    if kind == 'compound':
        out.update(op=OPNAME.get(reg.operator.__name__, reg.operator.__name__), a=canon_pix(reg.region1), b=canon_pix(reg.region2))
        return out
    if kind == 'polygon':
        out['v'] = [[F(x), F(y)] for x, y in zip(np.ravel(reg.vertices.x), np.ravel(reg.vertices.y))]
    elif kind == 'line':
        out['a'] = [F(reg.start.x), F(reg.start.y)]
        out['b'] = [F(reg.end.x), F(reg.end.y)]
    else:
        out['c'] = [F(reg.center.x), F(reg.center.y)]
    for k in SIZE_KEYS.get(kind, []):
        out[k] = F(getattr(reg, SIZE_ATTR[k]))
    if hasattr(reg, 'angle') and kind != 'polygon':
        out['dir'] = _dir(reg.angle)
        out['angle_deg'] = float(reg.angle.to_value('deg'))
    if kind == 'text':
        out['text'] = reg.text
    return out


def lonlat(sc):
    import astropy.units as u
    s = sc.spherical
    return np.ravel(s.lon.to_value(u.deg)).astype(float), np.ravel(s.lat.to_value(u.deg)).astype(float)


def frame_tag(sc):
    """frame name and the attributes that make two frames of one name different."""
    f = sc.frame

    def jd(t):
        return None if t is None else round(float(t.jd), 6)
    return f"{f.name}|{jd(getattr(f, 'equinox', None))}|{jd(getattr(f, 'obstime', None))}"


def sky_objs(reg):
    """every position of a real sky region as a scalar SkyCoord (in its own frame), in the order of `sky_points`."""
    from regions import CompoundSkyRegion
    if isinstance(reg, CompoundSkyRegion):
        return sky_objs(reg.region1) + sky_objs(reg.region2)
    if hasattr(reg, 'vertices'):
        return [reg.vertices[i] for i in range(len(reg.vertices))]
    if hasattr(reg, 'start'):
        return [reg.start, reg.end]
    return [reg.center]


def typed(x):
    """an answer of `contains` by value AND type: scalar boolean (Python bool or numpy bool_), boolean array (with its
    shape), or anything else (with its type name)."""
    if isinstance(x, (bool, np.bool_)):
        return {'t': 'bool', 'shape': None, 'v': [bool(x)]}
    if isinstance(x, np.ndarray) and x.dtype == np.bool_:
        return {'t': 'array', 'shape': list(x.shape), 'v': [bool(v) for v in np.ravel(x)]}
    return {'t': f'{type(x).__module__}.{type(x).__name__}' + (f'[{x.dtype}]' if isinstance(x, np.ndarray) else ''),
            'shape': list(np.shape(x)), 'v': repr(x)}


def spread(t, n):
    """the n per-position answers of a typed answer (a scalar is broadcast); None if it is not boolean."""
    if t['t'] == 'bool':
        return t['v'] * n
    if t['t'] == 'array' and len(t['v']) == n:
        return t['v']
    return None


def canon_sky(reg):
    import astropy.units as u
    cls = type(reg).__name__
    kind = SKY_CLS.get(cls, cls)
    out = {'kind': kind, 'cls': cls, 'meta': canon_meta(reg.meta), 'visual': canon_visual(reg.visual)}
    if kind == 'compound':
        out.update(op=OPNAME.get(reg.operator.__name__, reg.operator.__name__), a=canon_sky(reg.region1), b=canon_sky(reg.region2))
        return out
    if kind == 'polygon':
        lo, la = lonlat(reg.vertices)
        out['v'] = [[F(x), F(y)] for x, y in zip(lo, la)]
        out['frame'] = frame_tag(reg.vertices)
    elif kind == 'line':
        for key, sc in (('a', reg.start), ('b', reg.end)):
            lo, la = lonlat(sc)
            out[key] = [F(lo[0]), F(la[0])]
        out['frame'] = frame_tag(reg.start)
    else:
        lo, la = lonlat(reg.center)
        out['c'] = [F(lo[0]), F(la[0])]
        out['frame'] = frame_tag(reg.center)
    for k in SIZE_KEYS.get(kind, []):
        out[k] = F(getattr(reg, SIZE_ATTR[k]).to_value(u.arcsec))
    if hasattr(reg, 'angle'):
        out['dir'] = _dir(reg.angle)
        out['angle_deg'] = float(reg.angle.to_value('deg'))
    if kind == 'text':
        out['text'] = reg.text
    return out


def pix_points(reg):
    """[(x, y)] of every position of a real pixel region, in a fixed structural order."""
    from regions import CompoundPixelRegion
    if isinstance(reg, CompoundPixelRegion):
        return pix_points(reg.region1) + pix_points(reg.region2)
    if hasattr(reg, 'vertices') and not hasattr(reg, 'inner_radius'):
        return list(zip(np.ravel(reg.vertices.x).astype(float).tolist(), np.ravel(reg.vertices.y).astype(float).tolist()))
    if hasattr(reg, 'start'):
        return [(float(reg.start.x), float(reg.start.y)), (float(reg.end.x), float(reg.end.y))]
    return [(float(reg.center.x), float(reg.center.y))]


def sky_points(reg):
    from regions import CompoundSkyRegion
    if isinstance(reg, CompoundSkyRegion):
        return sky_points(reg.region1) + sky_points(reg.region2)
    if hasattr(reg, 'vertices'):
        lo, la = lonlat(reg.vertices)
        return list(zip(lo.tolist(), la.tolist()))
    if hasattr(reg, 'start'):
        return [tuple(float(v[0]) for v in lonlat(reg.start)), tuple(float(v[0]) for v in lonlat(reg.end))]
    lo, la = lonlat(reg.center)
    return [(float(lo[0]), float(la[0]))]


def sky_centers(reg):
    """the SkyCoord objects at which the conversion code calls the helper."""
    from regions import CompoundSkyRegion
    if isinstance(reg, CompoundSkyRegion):
        return sky_centers(reg.region1) + sky_centers(reg.region2)
    if hasattr(reg, 'center'):
        return [reg.center]
    return []


def loc_rows(wcs, regs):
    from regions._utils.wcs_helpers import pixel_scale_angle_at_skycoord
    import astropy.units as u
    rows = {}
    for reg in regs:
        for sc in sky_centers(reg):
            lo, la = lonlat(sc)
            key = (float(lo[0]), float(la[0]))
            if key in rows:
                continue
            _, scale, angle = pixel_scale_angle_at_skycoord(sc, wcs)
            rows[key] = [float(scale.to_value(u.arcsec / u.pix)), float(np.cos(angle)), float(np.sin(angle)),
                         float(angle.to('deg').value)]
    return rows


def tables_json(p2s, s2p, loc, fs=None):
    out = {'p2s': [[frac(F(a)), frac(F(b)), frac(F(c)), frac(F(d))] for (a, b), (c, d) in p2s.items()],
            's2p': [[frac(F(a)), frac(F(b)), frac(F(c)), frac(F(d))] for (a, b), (c, d) in s2p.items()],
            'loc': [[frac(F(a)), frac(F(b))] + [frac(F(v)) for v in row] for (a, b), row in loc.items()]}
    if fs is not None:
        out['fs'] = [[frac(F(a)), frac(F(b)), frac(F(c)), frac(F(d))] for (a, b), (c, d) in fs.items()]
    return out


# ------------------------------------------------------------------ sky regions: description, build

ANG_UNITS = ['arcsec', 'arcmin', 'deg', 'mas', 'rad', 'hourangle']     # every angular size is given directly in any of these


def _q(rng, arcsec):
    import astropy.units as u
    unit = rng.choice(ANG_UNITS)
    return [float((arcsec * u.arcsec).to_value(unit)), unit]


# the celestial frame of a sky region's coordinates is drawn INDEPENDENTLY of the WCS frame; `None` = the WCS's own frame.
REGION_FRAME_NAMES = ['icrs', 'fk5', 'fk4', 'galactic', 'barycentricmeanecliptic']
NONDEFAULT_ATTRS = {'fk5': [{'equinox': 'J1975'}, {'equinox': 'J2015.5'}],
                    'fk4': [{'equinox': 'B1975'}, {'equinox': 'B1950', 'obstime': 'B1975'}, {'equinox': 'B1900', 'obstime': 'J1991.25'}],
                    'barycentricmeanecliptic': [{'equinox': 'J1975'}]}


def gen_pts_frame(rng, wd):
    """frame in which the query positions are handed over: the WCS's own (None), or another one -- preferably the
    near-identical partner (ICRS <-> FK5 J2000 differ by ~20 mas; FK5 of another equinox; FK4)."""
    if rng.random() < 0.45:
        return None
    if wd['frame'] in ('icrs', 'fk5') and rng.random() < 0.7:
        return rng.choice([{'name': 'fk5' if wd['frame'] == 'icrs' else 'icrs'}, {'name': 'fk5' if wd['frame'] == 'icrs' else 'icrs'},
                           {'name': 'fk5', 'equinox': 'J1975'}, {'name': 'fk4'}])
    if wd['frame'] == 'fk4' and rng.random() < 0.7:
        return rng.choice([{'name': 'fk5'}, {'name': 'icrs'}, {'name': 'fk4', 'equinox': 'B1975'}])
    return gen_region_frame(rng)


def gen_region_frame(rng):
    if rng.random() < 0.4:
        return None
    spec = {'name': rng.choice(REGION_FRAME_NAMES)}
    if spec['name'] in NONDEFAULT_ATTRS and rng.random() < 0.4:
        spec.update(rng.choice(NONDEFAULT_ATTRS[spec['name']]))
    return spec


def make_frame(spec, wcs_frame):
    """astropy frame instance of a frame description (`None` = the frame of the WCS)."""
    if spec is None:
        return wcs_frame
    from astropy.coordinates import frame_transform_graph
    cls = frame_transform_graph.lookup_name(spec['name'])
    return cls(**{k: v for k, v in spec.items() if k != 'name'})


def is_foreign(spec, wd):
    return spec is not None and not (spec == {'name': wd['frame']})


def gen_sky_leaf(rng, wd, wcs, kind=None, frame_spec='draw'):
    """a sky region description near the field: positions as (lon, lat) degrees in the WCS's frame,
    sizes as [value, unit], angle as [value, unit]."""
    pd = gen_pix_leaf(rng, wd, kind=kind or rng.choice([k for k in PIX_KINDS if k != 'regular_polygon']))
    asec = wd['scale'] * 3600.0 * rng.uniform(0.8, 1.25)

    from astropy.wcs.utils import wcs_to_celestial_frame
    spec = gen_region_frame(rng) if frame_spec == 'draw' else frame_spec
    fr = make_frame(spec, wcs_to_celestial_frame(wcs))

    def sky(p):
        # the position is chosen in the image and expressed in the region's own frame by astropy (independent of regions)
        sc = wcs.pixel_to_world(p[0], p[1]).transform_to(fr)
        lo, la = lonlat(sc)
        return [float(lo[0]), float(la[0])]
    d = {'kind': pd['kind'], 'meta': pd['meta'], 'visual': pd['visual'], 'frame': spec}
    for key in ('c', 'a', 'b'):
        if key in pd:
            d[key] = sky(pd[key])
    if 'v' in pd:
        d['v'] = [sky(p) for p in pd['v']]
    for k in SIZE_KEYS.get(pd['kind'], []):
        d[k] = _q(rng, pd[k] * asec)
    if 'angle' in pd:
        d['angle'] = G.rangle(rng)
    if pd['kind'] == 'text':
        d['text'] = 'label'
    return d


def gen_sky_compound(rng, wd, wcs, depth):
    if depth == 0:
        return gen_sky_leaf(rng, wd, wcs, kind=rng.choice([k for k in G.SIMPLE_KINDS if k != 'regular_polygon']))
    a = gen_sky_compound(rng, wd, wcs, rng.randint(0, depth - 1))
    b = gen_sky_compound(rng, wd, wcs, rng.randint(0, depth - 1))
    d = {'kind': 'compound', 'op': gen_op(rng), 'a': a, 'b': b}
    d['meta_arg'] = None if rng.random() < 0.5 else gen_meta(rng, p_empty=0.5)
    d['visual_arg'] = None if rng.random() < 0.5 else gen_visual(rng, p_empty=0.6)
    return d


EMPTY_SKY_KINDS = ['point', 'line', 'text']


def gen_sky_empty_compound(rng, wd, wcs, depth):
    """compounds of the classes that contain nothing (point / line / text), every include value at both levels."""
    if depth == 0:
        d = gen_sky_leaf(rng, wd, wcs, kind=rng.choice(EMPTY_SKY_KINDS))
        d['meta'] = gen_meta(rng, p_empty=0.0)
        return d
    a = gen_sky_empty_compound(rng, wd, wcs, rng.randint(0, depth - 1))
    b = gen_sky_empty_compound(rng, wd, wcs, rng.randint(0, depth - 1))
    return {'kind': 'compound', 'op': gen_op(rng), 'a': a, 'b': b,
            'meta_arg': None if rng.random() < 0.15 else gen_meta(rng, p_empty=0.0),
            'visual_arg': None if rng.random() < 0.5 else gen_visual(rng, p_empty=0.6)}


def gen_pix_empty_compound(rng, wd, depth):
    if depth == 0:
        d = gen_pix_leaf(rng, wd, kind=rng.choice(G.EMPTY_KINDS))
        d['meta'] = gen_meta(rng, p_empty=0.0)
        d['include'] = d['meta']['include']
        return d
    a = gen_pix_empty_compound(rng, wd, rng.randint(0, depth - 1))
    b = gen_pix_empty_compound(rng, wd, rng.randint(0, depth - 1))
    d = {'kind': 'compound', 'op': gen_op(rng), 'a': a, 'b': b,
         'meta_arg': None if rng.random() < 0.15 else gen_meta(rng, p_empty=0.0),
         'visual_arg': None if rng.random() < 0.5 else gen_visual(rng, p_empty=0.6)}
    d['include'] = eff_meta(d)['include']
    return d


NONDEG_CENTRES = False     # set by C07: sky centres stored in hours / radians (see P below)


def build_sky(d, frame):
    import astropy.units as u
    from astropy.coordinates import Angle, SkyCoord
    from regions import (CircleAnnulusSkyRegion, CircleSkyRegion, CompoundSkyRegion, EllipseAnnulusSkyRegion,
                         EllipseSkyRegion, LineSkyRegion, PointSkyRegion, PolygonSkyRegion, RectangleAnnulusSkyRegion,
                         RectangleSkyRegion, TextSkyRegion)
    k = d['kind']
    if k == 'compound':
        return CompoundSkyRegion(build_sky(d['a'], frame), build_sky(d['b'], frame), OPS[d['op']],
                                 meta=None if d['meta_arg'] is None else make_meta(d['meta_arg']),
                                 visual=None if d['visual_arg'] is None else make_visual(d['visual_arg']))
    frame = make_frame(d.get('frame'), frame)
    def P(p):
        # the centre is STORED in other angular units a quarter of the time each (hours / degrees as a sexagesimal
        # catalogue gives them, or radians): what a conversion reads from it must not assume degrees
        # (C07 only - NONDEG_CENTRES - and only when the stored value converts back to exactly the same degrees, so
        # that the model and the code see one centre)
        import zlib
        sel = zlib.crc32(repr((p[0], p[1])).encode()) % 4 if NONDEG_CENTRES else 0
        if sel == 1:
            lon = (p[0] * u.deg).to(u.hourangle)
            if lon.to_value(u.deg) == p[0]:
                return SkyCoord(lon, p[1] * u.deg, frame=frame)
        if sel == 2:
            lon, lat = (p[0] * u.deg).to(u.rad), (p[1] * u.deg).to(u.rad)
            if lon.to_value(u.deg) == p[0] and lat.to_value(u.deg) == p[1]:
                return SkyCoord(lon, lat, frame=frame)
        return SkyCoord(p[0] * u.deg, p[1] * u.deg, frame=frame)
    Q = lambda q: Angle(q[0], q[1])
    m, v = make_meta(d['meta']), make_visual(d['visual'])
    if k == 'circle':
        return CircleSkyRegion(P(d['c']), Q(d['r']), meta=m, visual=v)
    if k == 'ellipse':
        return EllipseSkyRegion(P(d['c']), Q(d['w']), Q(d['h']), angle=Q(d['angle']), meta=m, visual=v)
    if k == 'rectangle':
        return RectangleSkyRegion(P(d['c']), Q(d['w']), Q(d['h']), angle=Q(d['angle']), meta=m, visual=v)
    if k == 'polygon':
        return PolygonSkyRegion(SkyCoord([p[0] for p in d['v']] * u.deg, [p[1] for p in d['v']] * u.deg, frame=frame),
                                meta=m, visual=v)
    if k == 'circle_annulus':
        return CircleAnnulusSkyRegion(P(d['c']), Q(d['r1']), Q(d['r2']), meta=m, visual=v)
    if k == 'ellipse_annulus':
        return EllipseAnnulusSkyRegion(P(d['c']), Q(d['w1']), Q(d['w2']), Q(d['h1']), Q(d['h2']), angle=Q(d['angle']),
                                       meta=m, visual=v)
    if k == 'rectangle_annulus':
        return RectangleAnnulusSkyRegion(P(d['c']), Q(d['w1']), Q(d['w2']), Q(d['h1']), Q(d['h2']), angle=Q(d['angle']),
                                         meta=m, visual=v)
    if k == 'point':
        return PointSkyRegion(P(d['c']), meta=m, visual=v)
    if k == 'line':
        return LineSkyRegion(P(d['a']), P(d['b']), meta=m, visual=v)
    if k == 'text':
        return TextSkyRegion(P(d['c']), d['text'], meta=m, visual=v)
    raise ValueError(k)


def model_sky(d, reg):
    """model JSON of a sky region description: numbers taken from the real object (arcsec, cos/sin as the code computes them)."""
    import astropy.units as u
    k = d['kind']
    if k == 'compound':
        return {'kind': 'compound', 'op': d['op'], 'a': model_sky(d['a'], reg.region1), 'b': model_sky(d['b'], reg.region2),
                'meta_arg': None if d['meta_arg'] is None else model_meta(d['meta_arg']),
                'visual_arg': None if d['visual_arg'] is None else model_visual(d['visual_arg'])}
    c = canon_sky(reg)
    out = {'kind': k, 'meta': model_meta(d['meta']), 'visual': model_visual(d['visual'])}
    for key in ('c', 'a', 'b'):
        if key in c:
            out[key] = [frac(c[key][0]), frac(c[key][1])]
    if 'v' in c:
        out['v'] = [[frac(p[0]), frac(p[1])] for p in c['v']]
    for key in SIZE_KEYS.get(k, []):
        out[key] = frac(c[key])
    if 'dir' in c:
        out['dir'] = [frac(c['dir'][0]), frac(c['dir'][1])]
    if k == 'text':
        out['text'] = d['text']
    return out


def desc_from_pixel(reg):
    """a regiongen-style description of a REAL pixel region (for the exact margin computation)."""
    c = canon_pix(reg)

    def conv(c):
        k = c['kind']
        d = {'kind': k, 'include': c['meta']['include']}
        if k == 'compound':
            d.update(op=c['op'], a=conv(c['a']), b=conv(c['b']))
            return d
        for key in ('c', 'a', 'b'):
            if key in c:
                d[key] = [float(c[key][0]), float(c[key][1])]
        if 'v' in c:
            d['v'] = [[float(p[0]), float(p[1])] for p in c['v']]
        for key in SIZE_KEYS.get(k, []):
            d[key] = float(c[key])
        if 'angle_deg' in c:
            d['angle'] = [c['angle_deg'], 'deg']
        return d
    return conv(c)


def _finite(*arrs):
    return all(np.all(np.isfinite(np.asarray(a, dtype=float))) for a in arrs)


# ------------------------------------------------------------------ history mode
#
# A conversion must depend only on the CURRENT parameters of the region and the CURRENT state of the WCS.  With some
# probability a case therefore has a history: the region object is first built with other parameters and/or the WCS object
# with other settings, converted / queried once ("warm"), then the parameters are re-assigned through the public setters
# and/or the WCS is edited in place, the first result is mutated by the "caller", and only then the conversion that is
# compared with the model / oracle (which know only the final parameters and the final WCS) is performed.

SIZE_DESC_KEYS = ('r', 'w', 'h', 'r1', 'r2', 'w1', 'w2', 'h1', 'h2')
PAIRS = [('inner_radius', 'outer_radius'), ('inner_width', 'outer_width'), ('inner_height', 'outer_height')]


def warm_wcs_desc(rng, wd, keep_parity=False):
    """another setting of the SAME WCS object (same projection and frame): rotation, pixel size, reference pixel and
    reference value differ; the pixel size only shrinks so that every position stays inside the projection's domain."""
    w = dict(wd)
    w['rot'] = rng.uniform(-180.0, 180.0)
    w['scale'] = wd['scale'] * rng.choice([0.5, 0.7, 0.9, 1.0])
    w['crpix'] = [wd['crpix'][0] + float(rng.randint(-40, 40)), wd['crpix'][1] + float(rng.randint(-40, 40))]
    w['lon0'] = (wd['lon0'] + rng.uniform(-1, 1) * 20 * wd['scale']) % 360.0
    w['lat0'] = max(-85.0, min(85.0, wd['lat0'] + rng.uniform(-1, 1) * 20 * wd['scale']))
    if not keep_parity:
        w['parity'] = rng.choice([1, -1])
    return w


def edit_wcs_inplace(w, d):
    """bring an existing WCS object to the settings `d` (what a user does with `w.wcs.cdelt = …; w.wcs.set()`).
    The derived native-pole entries LONPOLE / LATPOLE that `set()` filled in for the previous reference value are put back to
    their "undefined" defaults (a new WCS has lonpole = nan, latpole = 90), otherwise wcslib keeps the stale pole (and fails
    for a cylindrical projection whose reference latitude changes sign).  The edited object must then be the SAME
    transformation as a WCS built from scratch with `d`: asserted field by field and on probe points."""
    w.wcs.crval = [d['lat0'], d['lon0']] if d.get('latfirst') else [d['lon0'], d['lat0']]
    w.wcs.crpix = list(d['crpix'])
    set_linear(w, d)           # same encoding as the warm settings (warm_wcs_desc keeps 'enc')
    w.wcs.lonpole = float('nan')
    w.wcs.latpole = 90.0
    w.wcs.set()
    f = build_wcs(d)
    same = (list(w.wcs.ctype) == list(f.wcs.ctype) and w.wcs.radesys == f.wcs.radesys
            and np.array_equal(w.wcs.crval, f.wcs.crval) and np.array_equal(w.wcs.crpix, f.wcs.crpix)
            and np.array_equal(w.wcs.get_cdelt(), f.wcs.get_cdelt()) and np.array_equal(w.wcs.get_pc(), f.wcs.get_pc())
            and np.array_equal(w.pixel_scale_matrix, f.pixel_scale_matrix)
            and w.wcs.lonpole == f.wcs.lonpole and w.wcs.latpole == f.wcs.latpole
            and (w.wcs.equinox == f.wcs.equinox or (np.isnan(w.wcs.equinox) and np.isnan(f.wcs.equinox))))
    cx, cy = d['crpix']
    probes = np.array([[cx - 1, cy - 1], [cx + 36.5, cy - 80.25], [cx - 150.0, cy + 99.0], [cx + 7.0, cy + 250.0]])
    a, b = w.wcs_pix2world(probes, 0), f.wcs_pix2world(probes, 0)
    back_a, back_b = w.wcs_world2pix(a, 0), f.wcs_world2pix(b, 0)
    if not (same and np.array_equal(a, b, equal_nan=True) and np.array_equal(back_a, back_b, equal_nan=True)):
        raise AssertionError(f'harness: WCS edited in place differs from the WCS built from scratch: {d}')


def _has_kind(d, kind):
    if d['kind'] == 'compound':
        return _has_kind(d['a'], kind) or _has_kind(d['b'], kind)
    return d['kind'] == kind


def warm_desc(rng, d, wd, space, top=True, shift=None, f=None):
    """the same expression with other numeric parameters (positions moved by one common shift, sizes scaled by one common
    factor, angles redrawn); a top-level simple region may also get other dictionaries."""
    if top:
        if space == 'pix' and _has_kind(d, 'regular_polygon'):
            return None       # assigning centre/radius/angle of a RegularPolygonPixelRegion does not move its vertices (not C06/C07's business)
        step = min(80.0, field_radius(wd) / 2)
        if space == 'sky':
            shift = (rng.uniform(-1, 1) * step * wd['scale'], rng.uniform(-1, 1) * step * wd['scale'])
        else:
            shift = (float(rng.randint(-40, 40)), rng.uniform(-40, 40))
        f = rng.choice([0.4, 0.75, 1.0, 1.5, 2.5])
    w = copy.deepcopy(d)
    if d['kind'] == 'compound':
        w['a'] = warm_desc(rng, d['a'], wd, space, False, shift, f)
        w['b'] = warm_desc(rng, d['b'], wd, space, False, shift, f)
        return w

    def mv(p):
        if space == 'sky':
            return [(p[0] + shift[0]) % 360.0, max(-89.0, min(89.0, p[1] + shift[1]))]
        return [p[0] + shift[0], p[1] + shift[1]]
    for key in ('c', 'a', 'b'):
        if key in w and isinstance(w[key], list):
            w[key] = mv(w[key])
    if 'v' in w:
        w['v'] = [mv(q) for q in w['v']]
    for key in SIZE_DESC_KEYS:
        if key in w:
            w[key] = [w[key][0] * f, w[key][1]] if isinstance(w[key], list) else w[key] * f
    if 'angle' in w:
        w['angle'] = G.rangle(rng)
    if 'text' in w:
        w['text'] = 'warm'
    if top and rng.random() < 0.5:
        w['meta'] = gen_meta(rng)
        w['visual'] = gen_visual(rng, text=(d['kind'] == 'text'))
        if 'include' in w:
            w['include'] = w['meta']['include']
    return w


def gen_history(rng, wd, d, space, keep_parity=False):
    mode = rng.choice(['reassign', 'wcs', 'both', 'same'])
    h = {'mode': mode, 'warm_region': None, 'warm_wcs': None,
         'warm_call': rng.choice(['convert', 'convert', 'both', 'contains']) if space == 'sky' else 'convert',
         'mutate_first': rng.random() < 0.6}
    if mode in ('reassign', 'both'):
        h['warm_region'] = warm_desc(rng, d, wd, space)
    if mode in ('wcs', 'both'):
        h['warm_wcs'] = warm_wcs_desc(rng, wd, keep_parity)
    return h


def assign_params(reg, fresh):
    """re-assign every parameter (and the dictionaries) of `reg` through the public setters, taking the values of `fresh`."""
    from regions import CompoundPixelRegion, CompoundSkyRegion
    if isinstance(reg, (CompoundPixelRegion, CompoundSkyRegion)):
        assign_params(reg.region1, fresh.region1)
        assign_params(reg.region2, fresh.region2)
        return
    names = list(reg._params)
    done = set()
    for lo, hi in PAIRS:        # keep inner < outer at every moment
        if lo in names:
            if getattr(fresh, hi) > getattr(reg, lo):
                setattr(reg, hi, getattr(fresh, hi))
                setattr(reg, lo, getattr(fresh, lo))
            else:
                setattr(reg, lo, getattr(fresh, lo))
                setattr(reg, hi, getattr(fresh, hi))
            done |= {lo, hi}
    for n in names:
        if n not in done:
            setattr(reg, n, getattr(fresh, n))
    reg.meta = fresh.meta
    reg.visual = fresh.visual


def mutate_result(reg):
    """what a caller may do with a region it got back: change it in place."""
    from regions import CompoundPixelRegion, CompoundSkyRegion, PixCoord
    if isinstance(reg, (CompoundPixelRegion, CompoundSkyRegion)):
        mutate_result(reg.region1)
        mutate_result(reg.region2)
    else:
        for name in ('center', 'vertices', 'start', 'end'):
            pc = getattr(reg, name, None)
            if isinstance(pc, PixCoord) and name in reg._params:
                pc.x = pc.x + 17.0
                pc.y = pc.y - 9.0
    try:
        reg.meta['label'] = 'mutated by the caller'
        reg.meta['include'] = not reg.meta.get('include', True)
        reg.visual['color'] = 'mutated'
    except Exception:
        pass


def shared_parts(a, b, path='root'):
    """mutable parts that two successive results have in common (object identity)."""
    from regions import CompoundPixelRegion, CompoundSkyRegion, PixCoord
    out = []
    if type(a) is not type(b):
        return out
    if a.meta is b.meta:
        out.append(path + '.meta')
    if a.visual is b.visual:
        out.append(path + '.visual')
    if isinstance(a, (CompoundPixelRegion, CompoundSkyRegion)):
        return out + shared_parts(a.region1, b.region1, path + '.region1') + shared_parts(a.region2, b.region2, path + '.region2')
    for name in a._params:
        va, vb = getattr(a, name, None), getattr(b, name, None)
        if isinstance(va, PixCoord) and va is vb:
            out.append(f'{path}.{name}')
    return out


def run_history(h, build, d, wcs, wd, convert, contains=None):
    """build the region object with its history and return (object, notes).  `build(desc)` makes the object, `convert(obj)`
    is the conversion under test, `contains(obj)` (optional) a membership query."""
    notes = {'shared': [], 'warm_exc': None}
    if h is None:
        return build(d), None, notes
    obj = build(h['warm_region'] if h['warm_region'] is not None else d)
    first = None
    try:
        if h['warm_call'] in ('convert', 'both'):
            first = convert(obj)
        if h['warm_call'] in ('contains', 'both') and contains is not None:
            contains(obj)
    except Exception as e:
        notes['warm_exc'] = f'{type(e).__name__}: {e}'
    if h['warm_wcs'] is not None:
        edit_wcs_inplace(wcs, wd)
    if h['warm_region'] is not None:
        assign_params(obj, build(d))
    if first is not None and h['mutate_first']:
        mutate_result(first)
    return obj, first, notes


# ------------------------------------------------------------------ the real computation (+ the tables for the model)

QSHAPES = [[1, 12], [12, 1], [3, 4], [4, 3], [2, 3, 2], [2, 1, 6], [0], [0, 3]]      # besides the scalar and the (12,) queries


def _tcall(f):
    try:
        return typed(f())
    except Exception as e:       # e.g. a broadcast error inside a compound whose components answer in different shapes
        return {'t': 'exception', 'shape': None, 'v': f'{type(e).__name__}: {e}'}


def typed_answers(sky_reg, pix_reg, skypts, pp, wcs, qshape=None):
    """`contains` of a sky region and of its pixel image, by value and type, for ONE scalar position, for the 1-D array of
    the case's positions and for the same positions arranged as an N-D array of shape `qshape` (a pixel grid; an empty shape
    takes no position at all)."""
    from regions import PixCoord
    out = {'sky_arr': _tcall(lambda: sky_reg.contains(skypts, wcs)), 'pix_arr': _tcall(lambda: pix_reg.contains(pp))}
    one = skypts[0]
    out['sky_sc'] = _tcall(lambda: sky_reg.contains(one, wcs))
    out['pix_sc'] = _tcall(lambda: pix_reg.contains(PixCoord(float(np.ravel(pp.x)[0]), float(np.ravel(pp.y)[0]))))
    out['n'] = len(skypts)
    qshape = list(qshape) if qshape and int(np.prod(qshape)) <= len(skypts) else [1, len(skypts)]
    m = int(np.prod(qshape))
    snd = skypts[:m].reshape(tuple(qshape))
    pnd = PixCoord(np.asarray(pp.x)[:m].reshape(tuple(qshape)), np.asarray(pp.y)[:m].reshape(tuple(qshape)))
    out['qshape'] = qshape
    out['sky_nd'] = _tcall(lambda: sky_reg.contains(snd, wcs))
    out['pix_nd'] = _tcall(lambda: pix_reg.contains(pnd))
    return out


def _north_angle(sc, wcs):
    """pixel angle of the local north of the position's OWN frame, from astropy offsets only (never the regions helper)."""
    import astropy.units as u
    x0, y0 = (float(v) for v in wcs.world_to_pixel(sc))
    xn, yn = (float(v) for v in wcs.world_to_pixel(sc.directional_offset_by(0 * u.deg, 1 * u.arcsec)))
    return math.atan2(yn - y0, xn - x0)


def _north_scale(sc, wcs):
    """arcsec per pixel along the local north of the position's OWN frame (astropy offsets only)."""
    import astropy.units as u
    x0, y0 = (float(v) for v in wcs.world_to_pixel(sc))
    xn, yn = (float(v) for v in wcs.world_to_pixel(sc.directional_offset_by(0 * u.deg, 1 * u.arcsec)))
    return 1.0 / math.hypot(xn - x0, yn - y0)


def frame_facts(d, fresh, back, wcs, wd, path='root'):
    """sky -> pixel -> sky compared FRAME-INDEPENDENTLY, per simple component: the largest distance IN THE IMAGE (pixels)
    between astropy's image of an original position and of the returned one (both transformed towards the WCS frame, the
    direction the conversion itself uses: astropy's FK4 transformations are not exact inverses of each other), and the
    deviation of the returned angle from `angle + north(original frame) - north(returned frame)` (a sky angle is counted
    from the local longitude axis of the frame its centre is given in)."""
    import astropy.units as u
    if d['kind'] == 'compound':
        return (frame_facts(d['a'], fresh.region1, back.region1, wcs, wd, path + '.a')
                + frame_facts(d['b'], fresh.region2, back.region2, wcs, wd, path + '.b'))
    fact = {'path': path, 'foreign': is_foreign(d.get('frame'), wd), 'sep': None, 'dangle': None, 'n': [0, 0], 'scale_ratio': None}
    if type(fresh).__name__ != type(back).__name__:
        return [fact]
    pa, pb = sky_objs(fresh), sky_objs(back)
    fact['n'] = [len(pa), len(pb)]
    if len(pa) == len(pb):
        worst = 0.0
        for a, b in zip(pa, pb):
            xa, ya = (float(v) for v in wcs.world_to_pixel(a))
            xb, yb = (float(v) for v in wcs.world_to_pixel(b))
            worst = max(worst, math.hypot(xa - xb, ya - yb))
        fact['sep'] = worst
    if fact['foreign'] and hasattr(fresh, 'center') and hasattr(back, 'center'):
        # pixel scale along the WCS frame's north at the returned centre / along the own frame's north at the original centre
        fact['scale_ratio'] = _north_scale(back.center, wcs) / _north_scale(fresh.center, wcs)
    if hasattr(fresh, 'angle') and hasattr(back, 'angle'):
        exp = float(fresh.angle.to_value(u.rad)) + _north_angle(fresh.center, wcs) - _north_angle(back.center, wcs)
        dlt = float(back.angle.to_value(u.rad)) - exp
        fact['dangle'] = math.atan2(math.sin(dlt), math.cos(dlt))
    return [fact]


def compute(case):
    """-> {'real': canonical real results, 'req': request for the Lean driver}"""
    import warnings
    from astropy.coordinates.baseframe import NonRotationTransformationWarning
    warnings.filterwarnings('ignore', category=NonRotationTransformationWarning)     # FK4 <-> anything: expected, not our subject
    from regions import PixCoord
    wd = case['wcs']
    h = case.get('history')
    wcs = build_wcs(h['warm_wcs'] if h and h.get('warm_wcs') else wd)
    if case['kind'] == 'pix':
        d = case['region']
        reg, first, notes = run_history(h, build_pix, d, wcs, wd, lambda r: r.to_sky(wcs))
        fresh = build_pix(d)          # what the model and the oracle know: the final parameters only
        try:
            sky = reg.to_sky(wcs)
            if first is not None:
                notes['shared'] = shared_parts(first, sky)
                mutate_result(first)
            back = sky.to_pixel(wcs)
        except Exception as e:
            return {'real': {'exc': f'{type(e).__name__}: {e}'}, 'req': None}
        notes['operator_replaced'] = operators_kept(reg, sky) + operators_kept(sky, back)
        pts = case['pts']
        px = np.array([p[0] for p in pts], dtype=float)
        py = np.array([p[1] for p in pts], dtype=float)
        skypts = wcs.pixel_to_world(px, py)
        if case.get('pts_frame'):
            # the query positions are handed over in a frame of their own (astropy's transformation, independent of regions)
            from astropy.wcs.utils import wcs_to_celestial_frame as _wf
            skypts = skypts.transform_to(make_frame(case['pts_frame'], _wf(wcs)))
        ptsback = PixCoord.from_sky(skypts, wcs)            # the route SkyRegion.contains takes
        xi_, yi_ = wcs.world_to_pixel(skypts)               # the WCS image of the positions: the independent expectation
        pind = (np.ravel(xi_).astype(float), np.ravel(yi_).astype(float))
        if not _finite(pind[0], pind[1]) or not _finite(sky_points(sky), pix_points(back), lonlat(skypts)[0], lonlat(skypts)[1], ptsback.x, ptsback.y):
            return {'real': {'finite': False}, 'req': None}      # outside the domain of the WCS: no statement
        ty = typed_answers(sky, reg, skypts, PixCoord(px, py), wcs, case.get('qshape'))
        ty['pix_sc'] = typed(reg.contains(PixCoord(float(px[0]), float(py[0]))))     # the original position, not its round trip
        real = {'start': canon_pix(reg), 'sky': canon_sky(sky), 'back': canon_pix(back), 'typed': ty,
                'contains_pix': spread(ty['pix_arr'], len(pts)) or [], 'contains_sky': spread(ty['sky_arr'], len(pts)) or []}
        p2s = dict(zip(pix_points(reg), sky_points(sky)))
        s2p = dict(zip(sky_points(sky), pix_points(back)))
        lo, la = lonlat(skypts)
        q2s = dict(zip(zip(px.tolist(), py.tolist()), zip(lo.tolist(), la.tolist())))     # kept apart: a query pixel may coincide with a region position
        s2p.update(zip(zip(lo.tolist(), la.tolist()), zip(pind[0].tolist(), pind[1].tolist())))
        fs = dict(zip(zip(lo.tolist(), la.tolist()), zip(np.ravel(ptsback.x).astype(float).tolist(), np.ravel(ptsback.y).astype(float).tolist())))
        loc = loc_rows(wcs, [sky])
        real['finite'] = _finite([v for k in p2s.values() for v in k], [v for k in s2p.values() for v in k], [v for r in loc.values() for v in r])
        real['notes'] = notes
        real['ind_pts'] = [[float(a), float(b)] for a, b in zip(pind[0], pind[1])]
        # independent of the conversion: where the WCS (in its final state) puts the region's (final) positions
        fp = pix_points(fresh)
        isc = wcs.pixel_to_world(np.array([q[0] for q in fp], dtype=float), np.array([q[1] for q in fp], dtype=float))
        ilo, ila = lonlat(isc)
        real['indep'] = [[float(a), float(b)] for a, b in zip(ilo, ila)]
        real['conv'] = [[float(a), float(b)] for a, b in sky_points(sky)]
        tj = tables_json(p2s, s2p, loc)
        tj['q2s'] = [[frac(F(a)), frac(F(b)), frac(F(c_)), frac(F(d_))] for (a, b), (c_, d_) in q2s.items()]
        req = {'op': 'c06.pix', 'region': model_pix(d, fresh), 'wcs': tj,
               'pts': [[frac(F(x)), frac(F(y))] for x, y in zip(px, py)]} if real['finite'] else None
        return {'real': real, 'req': req}
    # sky -> pixel -> sky
    from astropy.coordinates import SkyCoord
    from astropy.wcs.utils import wcs_to_celestial_frame
    import astropy.units as u
    d = case['region']
    frame = wcs_to_celestial_frame(wcs)
    pts = case['pts']
    skypts = SkyCoord([p[0] for p in pts] * u.deg, [p[1] for p in pts] * u.deg, frame=make_frame(case.get('pts_frame'), frame))
    sreg, first, notes = run_history(h, lambda dd: build_sky(dd, frame), d, wcs, wd, lambda r: r.to_pixel(wcs),
                                     lambda r: r.contains(skypts, wcs))
    fresh = build_sky(d, frame)
    try:
        pix = sreg.to_pixel(wcs)
        if first is not None:
            notes['shared'] = shared_parts(first, pix)
            mutate_result(first)
        back = pix.to_sky(wcs)
    except Exception as e:
        return {'real': {'exc': f'{type(e).__name__}: {e}'}, 'req': None}
    notes['operator_replaced'] = operators_kept(sreg, pix) + operators_kept(pix, back)
    pfs = PixCoord.from_sky(skypts, wcs)                    # the route SkyRegion.contains takes for the positions
    xi_, yi_ = wcs.world_to_pixel(skypts)                   # the WCS image of the positions: the independent expectation
    ppx, ppy = np.ravel(xi_).astype(float), np.ravel(yi_).astype(float)
    pp = PixCoord(ppx, ppy)
    if not _finite(pix_points(pix), sky_points(back), ppx, ppy, pfs.x, pfs.y):
        return {'real': {'finite': False}, 'req': None}
    ty = typed_answers(sreg, pix, skypts, pp, wcs, case.get('qshape'))
    real = {'start': canon_sky(sreg), 'pix': canon_pix(pix), 'back': canon_sky(back), 'typed': ty,
            'contains_sky': spread(ty['sky_arr'], len(pts)) or [], 'contains_pix': spread(ty['pix_arr'], len(pts)) or [],
            'pix_pts': [[float(x), float(y)] for x, y in zip(ppx, ppy)],
            'pix_desc': desc_from_pixel(pix)}
    s2p = dict(zip(sky_points(sreg), pix_points(pix)))
    p2s = dict(zip(pix_points(pix), sky_points(back)))
    lo, la = lonlat(skypts)
    s2p.update(zip(zip(lo.tolist(), la.tolist()), zip(ppx.tolist(), ppy.tolist())))
    fs = dict(zip(zip(lo.tolist(), la.tolist()), zip(np.ravel(pfs.x).astype(float).tolist(), np.ravel(pfs.y).astype(float).tolist())))
    loc = loc_rows(wcs, [sreg, back])
    real['finite'] = _finite([v for k in p2s.values() for v in k], [v for k in s2p.values() for v in k], [v for r in loc.values() for v in r])
    real['notes'] = notes
    # independent of the conversion: astropy's own image of every (final) position, each in its own frame
    ip = []
    for sc in sky_objs(fresh):
        x_, y_ = wcs.world_to_pixel(sc)
        ip.append([float(x_), float(y_)])
    real['indep'] = ip
    real['facts'] = frame_facts(d, fresh, back, wcs, wd)
    if any(f['foreign'] for f in real['facts']):
        # a component given in another frame comes back expressed in the WCS frame: it must have the same pixel image
        try:
            real['pix2'] = canon_pix(back.to_pixel(wcs))
        except Exception as e:
            real['pix2'] = {'exc': f'{type(e).__name__}: {e}'}
    real['conv'] = [[float(a), float(b)] for a, b in pix_points(pix)]
    req = {'op': 'c06.sky', 'region': model_sky(d, fresh), 'wcs': tables_json(p2s, s2p, loc),
           'pts': [[frac(F(x)), frac(F(y))] for x, y in zip(lo, la)]} if real['finite'] else None
    return {'real': real, 'req': req}


_PENDING = []
_CACHE = {}


def _compute_safe(case):
    try:
        return compute(case)
    except Exception as e:     # reported by real(); the request is simply missing
        return {'real': {'harness': f'{type(e).__name__}: {e}'}, 'req': None}


def cached(case):
    k = case_key(case)
    if k not in _CACHE:
        if _PENDING:
            todo = [c for c in _PENDING if case_key(c) not in _CACHE]
            del _PENDING[:]
            if len(todo) > 64:
                with mp.Pool(min(16, os.cpu_count() or 1)) as pool:
                    res = pool.map(_compute_safe, todo, chunksize=max(1, len(todo) // 64))
            else:
                res = [_compute_safe(c) for c in todo]
            for c, r in zip(todo, res):
                _CACHE[case_key(c)] = r
        if k not in _CACHE:
            _CACHE[k] = _compute_safe(case)
    return _CACHE[k]


# ------------------------------------------------------------------ comparison helpers

def rel_close(a, b, tol):
    a, b = Fraction(a), Fraction(b)
    return abs(a - b) <= Fraction(tol) * max(abs(a), abs(b), Fraction(1, 10 ** 300))


def parse_model(j):
    """model JSON -> numbers as Fractions (same layout as canon_*)."""
    if j is None:
        return None
    out = {'kind': j['kind'], 'meta': j['meta'], 'visual': {'rotation': None if j['visual']['rotation'] is None else Fraction(j['visual']['rotation']),
                                                           'rest': j['visual']['rest']}}
    if j['kind'] == 'compound':
        out.update(op=j['op'], a=parse_model(j['a']), b=parse_model(j['b']))
        return out
    for key in ('c', 'a', 'b', 'dir'):
        if key in j:
            out[key] = [Fraction(j[key][0]), Fraction(j[key][1])]
    if 'v' in j:
        out['v'] = [[Fraction(p[0]), Fraction(p[1])] for p in j['v']]
    for key in SIZE_KEYS.get(j['kind'], []):
        out[key] = Fraction(j[key])
    if 'text' in j:
        out['text'] = j['text']
    return out


ROT_TOL_DEG = math.degrees(1e-6)     # the property's 1e-6 on a rotation angle: 1e-6 rad, as for (cos, sin)


def rot_close(a, b, tol=1e-9, floor=0.0):
    if a is None or b is None:
        return a is None and b is None
    return abs(float(a) - float(b)) <= max(floor, tol * max(1.0, abs(float(a)), abs(float(b))))


def same_dicts(r, m, rot_floor=0.0):
    return (r['meta'] == m['meta'] and r['visual']['rest'] == m['visual']['rest']
            and rot_close(r['visual']['rotation'], m['visual']['rotation'], floor=rot_floor))


def model_matches(real, mod, path='root'):
    """model output vs real canon: classes/ops/text/meta/visual exactly, positions exactly (both come
    from the tables), sizes 1e-9 relative, direction 1e-9."""
    if real['kind'] != mod['kind']:
        return f'{path}: class {real["kind"]} vs {mod["kind"]}'
    if not same_dicts(real, mod):
        return f'{path}: meta/visual {real["meta"]} {real["visual"]} vs {mod["meta"]} {mod["visual"]}'
    if real['kind'] == 'compound':
        if real['op'] != mod['op']:
            return f'{path}: op'
        return model_matches(real['a'], mod['a'], path + '.a') or model_matches(real['b'], mod['b'], path + '.b')
    for key in ('c', 'a', 'b'):
        if (key in real) != (key in mod) or (key in real and real[key] != mod[key]):
            return f'{path}: position {key}'
    if ('v' in real) != ('v' in mod) or ('v' in real and real['v'] != mod['v']):
        return f'{path}: vertices'
    for key in SIZE_KEYS.get(real['kind'], []):
        if not rel_close(real[key], mod[key], Fraction(1, 10 ** 9)):
            return f'{path}: size {key} {float(real[key])!r} vs {float(mod[key])!r}'
    if ('dir' in real) != ('dir' in mod):
        return f'{path}: angle presence'
    if 'dir' in real:
        if abs(real['dir'][0] - mod['dir'][0]) > Fraction(1, 10 ** 9) or abs(real['dir'][1] - mod['dir'][1]) > Fraction(1, 10 ** 9):
            return f'{path}: direction'
    if real.get('text') != mod.get('text'):
        return f'{path}: text'
    return None


def region_size(c):
    """a length scale of a canonical region (pixels or arcsec)."""
    if c['kind'] == 'compound':
        return max(region_size(c['a']), region_size(c['b']))
    vals = [float(c[k]) for k in SIZE_KEYS.get(c['kind'], [])]
    return max(vals) if vals else 0.0


def has_nonempty_compound_dict(c):
    if c['kind'] != 'compound':
        return False
    return (c['meta'] != {'include': 'absent', 'rest': []} or c['visual'] != {'rotation': None, 'rest': []}
            or has_nonempty_compound_dict(c['a']) or has_nonempty_compound_dict(c['b']))


# ------------------------------------------------------------------ the check

class Check(PropertyCheck):
    id = 'C06'
    lean_targets = ['RegionsVerif.Props.C06', 'RegionsVerif.Bridge.ConvGlue']
    namespaces = ['RegionsVerif.Props.C06', 'RegionsVerif.Bridge.ConvGlue']

    def translate(self):
        # tie T: regenerate Gen/ConvGlue.lean (every to_sky / to_pixel method, the sky-side contains, the WCS helper)
        import importlib.util, os
        from .common import VERIF
        spec = importlib.util.spec_from_file_location('convglue', os.path.join(VERIF, 'tools', 'convglue.py'))
        mod = importlib.util.module_from_spec(spec)
        spec.loader.exec_module(mod)
        return mod.main()
    parallel = True
    level = 'proof'
    rule = ('real astropy.wcs.WCS: TAN/SIN/CAR x longitude-first and (20%) LATITUDE-first world axes (DEC/RA, GLAT/GLON) x pixel scale 0.01arcsec..0.1deg, 15% very fine (1..10 mas/pix) x query positions handed over in the WCS frame or in another one (preferably the near-identical partner ICRS<->FK5 J2000, FK5 of another equinox, FK4), expectation = the pixel image at wcs.world_to_pixel(position) x linear part encoded as PC+CDELT(-s,s) / full CD matrix / parity flip inside PC with positive CDELT / CROTA2+CDELT (the same transformation) x rotation -180..180 deg x pixel scale 0.01arcsec..0.1deg (log-uniform) x both parities x '
            'ICRS/FK5/FK4/Galactic x reference latitude |lat|<85 x positions within min(300 px, 25 deg) of CRPIX; every pixel class '
            'sky regions given in a frame drawn INDEPENDENTLY of the WCS frame (icrs/fk5/fk4/galactic/barycentricmeanecliptic, 40% of them with a '
            'non-default equinox/obstime where the frame has one; 40% in the WCS frame itself), per simple component; compounds of the nothing-containing '
            'classes (point/line/text) with every include value at both levels, answers compared by value AND type for one scalar and an array of positions; '
            '(circle, ellipse, rectangle, polygon, regular polygon, 3 annuli, point, line, text) and compounds to depth 2, every sky class, '
            'sizes 0.015..240 px, every angular size independently in arcsec/arcmin/deg/mas/rad/hourangle, any angle/unit, meta (include in {absent,True,False,1,0}, label/comment/text/name/tag) and visual '
            '(color/linewidth/fontsize/rotation), compound constructors called with explicit and with None dictionaries; '
            'compound operators: &, |, ^ and (40%) a non-commutative callable (a&~b, ~a&b, ~a|b, a) kept by identity through the conversions; '
            'HISTORY MODE (40% of the cases): the region object is first built with other parameters and/or the WCS object with other settings, converted / queried once, then every parameter is re-assigned through the public setters and/or the WCS is edited in place (crval/crpix/cdelt/pc + set()), the first result is mutated by the caller, and only then the compared conversion is made; the model and the oracle know only the final parameters and the final WCS; two successive results must not share PixCoord/meta/visual objects. '
            'pixel->sky->pixel and sky->pixel->sky; 12 query positions per region (cloud + near-boundary), asked as one scalar, as a (12,) array and as an N-D array of shape (1,12)/(12,1)/(3,4)/(4,3)/(2,3,2)/(2,1,6)/(0,)/(0,3): same shape, dtype bool and values on the sky side and the pixel side. '
            'Non-trivial = geometry round trip of a region with a size/angle, or a membership comparison with both answers present.')
    assumptions = ['PARTIAL PROOF: the WCS (astropy/wcslib) is a parameter of the model; the round-trip theorems assume toPix and toSky are exactly '
                   'mutually inverse, a non-zero scale and a unit north vector; a real WCS inverts only to ~1e-9 pixel',
                   'the exact round-trip theorems assume toSky(toPix(q)) = q, which holds only for sky regions expressed in the frame of the WCS (pixel_to_world returns that frame; '
                   "the helper measures north in the SkyCoord's own frame); other frames are covered by the differential run and the oracle only",
                   'the model is fed the real converted positions and the real helper results (tables); it is compared at 1e-9 relative on sizes and '
                   '(cos, sin) of angles, exactly on positions, classes, operators, text, meta, visual',
                   'membership is compared only for positions whose exact relative distance to the boundary of the pixel region is > max(1e-6, (3e-13 deg / pixel scale) / smallest dimension): sky coordinates are stored in degrees and carry a few ulp of 360 deg',
                   'geometry after a round trip is compared at 1e-6 relative (the property\'s tolerance); angles as (cos, sin)',
                   'RegularPolygonPixelRegion has no sky class: it converts as the polygon of its vertices (PolygonSkyRegion -> PolygonPixelRegion)']
    validated_only = ['that a real astropy WCS is invertible to within the tolerance and that the helper returns the same (scale, angle) at the '
                      'round-tripped centre: observed on every case of the run, not a theorem',
                      'astropy unit conversion (Angle/Quantity arithmetic in to_sky/to_pixel), SkyCoord frames, numpy cos/sin: parameters of the model',
                      'a sky region given in a frame other than the WCS frame comes back expressed in the WCS frame: positions, angle and pixel image are compared through the image '
                      '(same pixel image to 1e-6, positions mapped to the same pixels, angle = angle + north(own frame) - north(WCS frame)): observed, outside the theorems '
                      '(toSky(toPix q) = q fails for such q); its angular SIZES are compared at 1e-6 like every other size (open finding F204 where they differ)']

    # -------------------------------------------------------------- generation
    def generate(self, rng, tier):
        n_wcs = 115 if tier == 'quick' else 2000
        cases = []
        for _ in range(n_wcs):
            wd = gen_wcs(rng, fine_p=0.15)
            wcs = build_wcs(wd)
            kinds = list(PIX_KINDS)
            rng.shuffle(kinds)
            for kind in kinds[:5]:
                d = gen_pix_leaf(rng, wd, kind=kind)
                cases.append(self._pix_case(rng, wd, d))
            d = gen_pix_compound(rng, wd, rng.randint(1, 2))
            cases.append(self._pix_case(rng, wd, d))
            skinds = [k for k in PIX_KINDS if k != 'regular_polygon']
            rng.shuffle(skinds)
            for kind in skinds[:4]:
                cases.append(self._sky_case(rng, wd, wcs, gen_sky_leaf(rng, wd, wcs, kind=kind)))
            cases.append(self._sky_case(rng, wd, wcs, gen_sky_compound(rng, wd, wcs, rng.randint(1, 2))))
            cases.append(self._sky_case(rng, wd, wcs, gen_sky_empty_compound(rng, wd, wcs, rng.randint(1, 2))))
            cases.append(self._pix_case(rng, wd, gen_pix_empty_compound(rng, wd, rng.randint(1, 2))))
        del _PENDING[:]
        _PENDING.extend(cases)
        return cases

    @staticmethod
    def _first_leaf(d):
        while d['kind'] == 'compound':
            d = d['a']
        return d

    def _pix_case(self, rng, wd, d):
        leaf = self._first_leaf(d)
        pts = query_points(rng, {k: v for k, v in leaf.items() if k not in ('meta', 'visual')}, 12)
        case = {'kind': 'pix', 'wcs': wd, 'region': d, 'pts': [[float(p[0]), float(p[1])] for p in pts], 'qshape': rng.choice(QSHAPES),
                'pts_frame': gen_pts_frame(rng, wd)}
        if rng.random() < HISTORY_P:
            case['history'] = gen_history(rng, wd, d, 'pix')
        return case

    def _sky_case(self, rng, wd, wcs, d):
        # query positions: a cloud around the pixel image of the first simple component (the image is used only to
        # place the positions), expressed as sky coordinates
        from astropy.wcs.utils import wcs_to_celestial_frame
        leaf = self._first_leaf(d)
        try:
            img = build_sky(leaf, wcs_to_celestial_frame(wcs)).to_pixel(wcs)
            pd = desc_from_pixel(img)
        except Exception:
            pd = {'kind': 'point', 'c': [wd['crpix'][0], wd['crpix'][1]]}
        pts = query_points(rng, pd, 12)
        sc = wcs.pixel_to_world(np.array([p[0] for p in pts], dtype=float), np.array([p[1] for p in pts], dtype=float))
        pf = gen_pts_frame(rng, wd)
        if pf is not None:
            sc = sc.transform_to(make_frame(pf, wcs_to_celestial_frame(wcs)))
        lo, la = lonlat(sc)
        case = {'kind': 'sky', 'wcs': wd, 'region': d, 'pts': [[float(x), float(y)] for x, y in zip(lo, la)], 'qshape': rng.choice(QSHAPES),
                'pts_frame': pf}
        if rng.random() < HISTORY_P:
            case['history'] = gen_history(rng, wd, d, 'sky')
        return case

    # -------------------------------------------------------------- real / model
    def real(self, case):
        r = compute(case)['real']
        if 'harness' in r:
            raise RuntimeError(r['harness'])
        return r

    def requests(self, case):
        req = cached(case)['req']
        return [req] if req is not None else []

    def model(self, case, replies):
        return replies[0] if replies else None

    def equal(self, case, real, model):
        if 'exc' in real:
            return False
        if not real.get('finite', True):
            return True                      # outside the WCS's domain: nothing to compare (counted in its own bucket)
        if model is None or 'fail' in model:
            return False
        if case['kind'] == 'pix':
            for rk, mk in (('start', 'start'), ('sky', 'sky'), ('back', 'back')):
                if model_matches(real[rk], parse_model(model[mk])):
                    return False
            if not self._answers_match_model(case, real, model):
                return False
            d = G_desc(case['region'])
            band = band_for(case, d)
            for p, pi, rp, rs, mp_, ms in zip(case['pts'], real.get('ind_pts') or case['pts'], real['contains_pix'], real['contains_sky'],
                                              model['contains_pix'], model['contains_sky']):
                _, mg = spec_contains(d, F(p[0]), F(p[1]))
                _, mgi = spec_contains(d, F(pi[0]), F(pi[1]))
                if min(mg, mgi) < band:
                    continue
                if rp != mp_ or rs != ms:
                    return False
            return True
        for rk, mk in (('start', 'start'), ('pix', 'pix'), ('back', 'back')):
            if model_matches(real[rk], parse_model(model[mk])):
                return False
        if not self._answers_match_model(case, real, model):
            return False
        band = band_for(case, real['pix_desc'])
        for p, rs, rp, ms, mp_ in zip(real['pix_pts'], real['contains_sky'], real['contains_pix'], model['contains_sky'], model['contains_pix']):
            _, mg = spec_contains(real['pix_desc'], F(p[0]), F(p[1]))
            if mg < band:
                continue
            if rs != ms or rp != mp_:
                return False
        return True

    @staticmethod
    def _answers_match_model(case, real, model):
        """the answers are booleans, one per position (a scalar is broadcast), and the sky side answers an array of positions
        with ONE scalar exactly when the model says so (point / line / text overrides)."""
        n = len(case['pts'])
        if len(real['contains_pix']) != n or len(real['contains_sky']) != n:
            return False
        if len(model['contains_pix']) != n or len(model['contains_sky']) != n:
            return False
        if n > 1 and (real['typed']['sky_arr']['t'] == 'bool') != bool(model['sky_scalar_for_array']):
            return False
        ty = real['typed']
        if 'sky_nd' in ty and not model['sky_scalar_for_array']:
            # the model answers in the shape of the positions (Props.C06.sky_contains_shape_full_holds), one answer per position
            if ty['sky_nd']['t'] != 'array' or ty['sky_nd']['shape'] != ty['qshape']:
                return False
            if ty['sky_nd']['v'] != real['contains_sky'][:len(ty['sky_nd']['v'])]:
                return False
        return True

    # -------------------------------------------------------------- oracle: the property on the real results
    def oracle(self, case, real):
        V = []
        brief = {'wcs': case['wcs'], 'region': case['region']}

        def bad(kind, detail, **kw):
            v = {'kind': kind, 'detail': f'{detail} :: {brief}'}
            v.update(kw)
            V.append(v)
        if 'exc' in real:
            bad('exception', real['exc'])
            return V
        if not real.get('finite', True):
            return V
        if case['kind'] == 'pix':
            start, mid, back = real['start'], real['sky'], real['back']
            unit = 'pix'
        else:
            start, mid, back = real['start'], real['pix'], real['back']
            unit = 'sky'
        notes = real.get('notes') or {}
        hist = case.get('history')
        htxt = f' [history: {hist["mode"]}, warm call {hist["warm_call"]}, first result mutated: {hist["mutate_first"]}]' if hist else ''
        if notes.get('operator_replaced'):
            bad('operator_changed', f'the operator object of a compound is not kept by the conversion: {notes["operator_replaced"]}')
        if notes.get('shared'):
            bad('results_share_state', f'two successive conversions of the same object return regions sharing {notes["shared"]}{htxt}')
        # the converted positions are the WCS images of the CURRENT positions under the CURRENT WCS (independent evaluation)
        size0 = region_size(mid)
        scale_as0 = case['wcs']['scale'] * 3600.0
        for p_conv, p_ind in zip(real.get('conv', []), real.get('indep', [])):
            if self._pos_off([Fraction(v) for v in p_conv], [Fraction(v) for v in p_ind], 'sky' if case['kind'] == 'pix' else 'pix', size0, scale_as0):
                bad('position_not_wcs_image', f'converted position {p_conv} but the WCS maps the current position to {p_ind}{htxt}')
                break
        f2 = has_nonempty_compound_dict(start)
        lost = []
        facts = {f['path']: f for f in real.get('facts', [])}
        foreign = {pth for pth, f in facts.items() if f['foreign']}
        self._compare(start, back, unit, case, bad, lost, 'roundtrip', foreign=foreign)
        # components given in a frame that is not the WCS's: the returned region is expressed in the WCS frame; compare on the sky
        for pth in sorted(foreign):
            f = facts[pth]
            leaf = start
            for step in pth.split('.')[1:]:
                leaf = leaf[step]
            tol = 1e-6 * max(region_size(leaf) / scale_as0, 1.0)
            if f['n'][0] != f['n'][1]:
                bad('vertex_count_changed', f'{pth}: {f["n"][0]} -> {f["n"][1]}')
            elif f['sep'] is not None and not f['sep'] <= tol:
                bad('position_changed', f'{pth} (frame {leaf.get("frame")} on a {case["wcs"]["frame"]} WCS): a position moved by {f["sep"]!r} pixels in the image')
            bleaf = back
            for step in pth.split('.')[1:]:
                bleaf = bleaf.get(step, {}) if isinstance(bleaf, dict) else {}
            for key in SIZE_KEYS.get(leaf['kind'], []):
                if key not in bleaf:
                    continue
                if rel_close(leaf[key], bleaf[key], Fraction(1, 10 ** 6)):
                    continue
                ratio = float(bleaf[key]) / float(leaf[key])
                if f['scale_ratio'] is not None and abs(ratio - f['scale_ratio']) <= 1e-6 * max(1.0, f['scale_ratio']):
                    bad('foreign_frame_size_changed', f'{pth}.{key} (centre in {leaf.get("frame")}, WCS frame {case["wcs"]["frame"]}): '
                        f'{float(leaf[key])!r} arcsec -> {float(bleaf[key])!r} arcsec (x {ratio:.9f}) = the ratio of the pixel scales along the '
                        f'WCS frame\'s north and along the region frame\'s north at that position ({f["scale_ratio"]:.9f})', f204_class=True)
                else:
                    bad('size_changed', f'{pth}.{key}: {float(leaf[key])!r} -> {float(bleaf[key])!r} (foreign frame; scale ratio {f["scale_ratio"]})')
            if f['dangle'] is not None and not abs(f['dangle']) <= 1e-6:
                bad('angle_changed', f'{pth} (frame {leaf.get("frame")}): returned angle deviates by {f["dangle"]!r} rad from angle + north(own frame) - north(WCS frame)')
        if foreign:
            if 'exc' in real.get('pix2', {}):
                bad('exception', 'to_pixel of the returned region: ' + real['pix2']['exc'])
            else:
                self._compare(real['pix'], real['pix2'], 'pix', case, bad, [], 'pixel image of the returned region vs of the original')
        self._compare_oneway(start, mid, bad, lost)
        self._typed_check(case, real, start, bad)
        # membership
        if case['kind'] == 'pix':
            d = G_desc(case['region'])
            d_lost = G_desc(case['region'], drop_compound_include=True)
            band = band_for(case, d)
            for p, pi, a, b in zip(case['pts'], real.get('ind_pts') or case['pts'], real['contains_pix'], real['contains_sky']):
                # the sky image is asked about the position that was handed over; its WCS image `pi` (independent evaluation) is the
                # pixel position it stands for -- equal to `p` up to astropy's frame transformations not being exact inverses
                exp, mg = spec_contains(d, F(pi[0]), F(pi[1]))
                if mg < band:
                    continue
                if b != exp:
                    exp_lost, _ = spec_contains(d_lost, F(pi[0]), F(pi[1]))
                    if f2 and lost and b == exp_lost:
                        bad('compound_membership_changed', f'position {p}: pixel region says {a}, its sky image says {b} '
                            '(include flag of a compound node lost by to_sky)', f2_class=True)
                    else:
                        bad('membership_not_invariant', f'position {p} (WCS image of the sky position handed over: {pi}): the pixel region says {exp} there '
                            f'({a} at the position itself), its sky image says {b}; margin {float(mg):.3g}')
                    break
        else:
            band = band_for(case, real['pix_desc'])
            for p, a, b in zip(real['pix_pts'], real['contains_sky'], real['contains_pix']):
                _, mg = spec_contains(real['pix_desc'], F(p[0]), F(p[1]))
                if mg < band:
                    continue
                if a != b:
                    bad('sky_contains_differs_from_pixel_image', f'the WCS maps the position to pixel {p}: SkyRegion.contains {a}, pixel image {b}; margin {float(mg):.3g}')
                    break
        return V

    def _compare_oneway(self, start, mid, bad, lost, path='root'):
        """meta / visual after ONE conversion (rotation of a text region legitimately changes)."""
        if start['kind'] != mid['kind']:
            bad('class_changed', f'{path}: {start["cls"]} -> {mid["cls"]}')
            return
        if start['meta'] != mid['meta'] or start['visual']['rest'] != mid['visual']['rest']:
            if start['kind'] == 'compound' and mid['meta'] == {'include': 'absent', 'rest': []} and mid['visual'] == {'rotation': None, 'rest': []}:
                lost.append(path)
                bad('compound_meta_lost', f'{path}: one conversion: meta {start["meta"]} visual {start["visual"]} -> empty', f2_class=True)
            else:
                bad('meta_changed', f'{path}: one conversion: {start["meta"]} {start["visual"]} -> {mid["meta"]} {mid["visual"]}')
        if start['kind'] == 'compound':
            self._compare_oneway(start['a'], mid['a'], bad, lost, path + '.a')
            self._compare_oneway(start['b'], mid['b'], bad, lost, path + '.b')

    @staticmethod
    def _all_empty(c):
        if c['kind'] == 'compound':
            return Check._all_empty(c['a']) and Check._all_empty(c['b'])
        return c['kind'] in ('point', 'line', 'text')

    def _typed_check(self, case, real, start, bad):
        """the sky-side answer and the pixel-side answer BY VALUE AND TYPE, for one scalar position and for an array."""
        ty = real.get('typed')
        if not ty:
            return
        empty = self._all_empty(start)
        n = ty['n']
        for which in ('sc', 'arr'):
            sk, px = ty['sky_' + which], ty['pix_' + which]
            what = 'one scalar position' if which == 'sc' else f'an array of {n} positions'
            if px['t'] not in ('bool', 'array') or (which == 'arr' and px['shape'] != [n]) or (which == 'sc' and px['t'] != 'bool'):
                bad('pixel_contains_type', f'{what}: the pixel region answers {px}')
                continue
            if sk['t'] not in ('bool', 'array'):
                bad('sky_contains_not_boolean', f'{what}: the sky region answers {sk["v"]} of type {sk["t"]}, the pixel region {px["v"]} ({px["t"]})')
                continue
            if which == 'sc' and sk['t'] != 'bool':
                bad('sky_contains_shape_differs', f'{what}: the sky region answers with shape {sk["shape"]}')
                continue
            if which == 'arr' and sk['shape'] != px['shape']:
                if empty and sk['t'] == 'bool' and n > 1 and all(v == sk['v'][0] for v in px['v']):
                    bad('sky_contains_scalar_for_array', f'{what}: the sky region (only point/line/text components) answers ONE bool '
                        f'{sk["v"][0]}, its pixel image an array of shape {px["shape"]} (all {sk["v"][0]})', f203_class=True)
                else:
                    bad('sky_contains_shape_differs', f'{what}: sky answer shape {sk["shape"]} ({sk["t"]}), pixel answer shape {px["shape"]}')
                continue
            if empty and spread(sk, n if which == 'arr' else 1) != spread(px, n if which == 'arr' else 1):
                bad('sky_contains_differs_from_pixel_image', f'{what}: sky {sk["v"]} vs pixel {px["v"]} (nothing-containing classes: no boundary)')
        # the same positions arranged as an N-D array: both sides answer with a bool array of exactly that shape, and with the
        # answers they gave for the 1-D arrangement (row-major)
        if 'sky_nd' in ty:
            q = ty['qshape']
            m = int(np.prod(q))
            what = f'an array of positions of shape {tuple(q)}'
            sk, px = ty['sky_nd'], ty['pix_nd']
            if px['t'] != 'array' or px['shape'] != q:
                bad('pixel_contains_type', f'{what}: the pixel region answers {px["t"]} of shape {px["shape"]}: {str(px["v"])[:200]}')
            elif sk['t'] != 'array':
                bad('sky_contains_not_boolean' if sk['t'] != 'bool' else 'sky_contains_shape_differs',
                    f'{what}: the sky region answers {sk["t"]} {str(sk["v"])[:200]}; its pixel image a bool array of shape {px["shape"]}')
            elif sk['shape'] != q:
                bad('sky_contains_shape_differs', f'{what}: the sky region answers with shape {tuple(sk["shape"])}, its pixel image with {tuple(px["shape"])}')
            else:
                a1, p1 = spread(ty['sky_arr'], n), spread(ty['pix_arr'], n)
                if a1 is not None and sk['v'] != a1[:m]:
                    bad('sky_contains_depends_on_array_shape', f'{what}: sky answers {sk["v"]} but {a1[:m]} for the same positions as a 1-D array')
                if p1 is not None and px['v'] != p1[:m]:
                    bad('pixel_contains_type', f'{what}: pixel answers {px["v"]} but {p1[:m]} for the same positions as a 1-D array')

    def _compare(self, a, b, unit, case, bad, lost, what, path='root', foreign=frozenset()):
        """start vs round-tripped region: class, geometry within 1e-6 relative, meta, visual."""
        if a['kind'] != b['kind'] or (a['cls'] != b['cls'] and not (a['cls'] == 'RegularPolygonPixelRegion' and b['cls'] == 'PolygonPixelRegion')):
            bad('class_changed', f'{path}: {a["cls"]} -> {b["cls"]}')
            return
        is_foreign_leaf = unit == 'sky' and path in foreign
        if is_foreign_leaf:
            # the text rotation, like every angle, is counted from the longitude axis of the centre's own frame: compared through the pixel image
            b = dict(b, visual=dict(b['visual'], rotation=a['visual']['rotation']))
        if not same_dicts(a, b, rot_floor=ROT_TOL_DEG):
            if a['kind'] == 'compound' and b['meta'] == {'include': 'absent', 'rest': []} and b['visual'] == {'rotation': None, 'rest': []}:
                lost.append(path)
                bad('compound_meta_lost', f'{path}: {what}: meta {a["meta"]} visual {a["visual"]} -> empty', f2_class=True)
            else:
                bad('meta_changed', f'{path}: {what}: {a["meta"]} {a["visual"]} -> {b["meta"]} {b["visual"]}')
        if a['kind'] == 'compound':
            if a['op'] != b['op']:
                bad('operator_changed', f'{path}: {a["op"]} -> {b["op"]}')
            self._compare(a['a'], b['a'], unit, case, bad, lost, what, path + '.a', foreign)
            self._compare(a['b'], b['b'], unit, case, bad, lost, what, path + '.b', foreign)
            return
        if unit == 'sky' and path in foreign:
            # expressed in another frame on return: positions, angle and sizes are compared through the image (frame_facts, pix2):
            # the scale is measured along the north of the frame the centre is given in, and where the projection is not
            # conformal (off-axis TAN/SIN, CAR) two norths give two scales -- the angular sizes then differ while the image is the same
            if a.get('text') != b.get('text'):
                bad('text_changed', f'{path}: {a.get("text")!r} -> {b.get("text")!r}')
            return
        if unit == 'sky' and a.get('frame') != b.get('frame'):
            bad('frame_changed', f'{path}: {a.get("frame")} -> {b.get("frame")}')
        size = region_size(a)
        scale_as = case['wcs']['scale'] * 3600.0
        for key in ('c', 'a', 'b'):
            if key in a:
                if self._pos_off(a[key], b[key], unit, size, scale_as):
                    bad('position_changed', f'{path}.{key}: {[float(v) for v in a[key]]} -> {[float(v) for v in b[key]]}')
        if 'v' in a:
            if len(a['v']) != len(b['v']):
                bad('vertex_count_changed', f'{path}: {len(a["v"])} -> {len(b["v"])}')
            else:
                ext = self._extent(a['v'], unit)
                for p, q in zip(a['v'], b['v']):
                    if self._pos_off(p, q, unit, ext, scale_as):
                        bad('position_changed', f'{path}: vertex {[float(v) for v in p]} -> {[float(v) for v in q]}')
                        break
        for key in SIZE_KEYS.get(a['kind'], []):
            if not rel_close(a[key], b[key], Fraction(1, 10 ** 6)):
                bad('size_changed', f'{path}.{key}: {float(a[key])!r} -> {float(b[key])!r}')
        if 'dir' in a:
            if abs(a['dir'][0] - b['dir'][0]) > Fraction(1, 10 ** 6) or abs(a['dir'][1] - b['dir'][1]) > Fraction(1, 10 ** 6):
                bad('angle_changed', f'{path}: {a["angle_deg"]} -> {b["angle_deg"]} deg')
        if a.get('text') != b.get('text'):
            bad('text_changed', f'{path}: {a.get("text")!r} -> {b.get("text")!r}')

    @staticmethod
    def _extent(vs, unit):
        xs = [float(p[0]) for p in vs]
        ys = [float(p[1]) for p in vs]
        e = max(max(ys) - min(ys), 1e-300)
        if unit == 'pix':
            return max(e, max(xs) - min(xs))
        return e * 3600.0

    @staticmethod
    def _pos_off(p, q, unit, size, scale_as):
        """position differs by more than 1e-6 of the region's size (floor: 1e-6 pixel)."""
        if unit == 'pix':
            dist = math.hypot(float(p[0] - q[0]), float(p[1] - q[1]))
            return dist > 1e-6 * max(size, 1.0)
        # angular separation in arcsec (haversine), positions in degrees
        l1, b1, l2, b2 = (math.radians(float(v)) for v in (p[0], p[1], q[0], q[1]))
        h = math.sin((b2 - b1) / 2) ** 2 + math.cos(b1) * math.cos(b2) * math.sin((l2 - l1) / 2) ** 2
        sep = 2 * math.asin(min(1.0, math.sqrt(h))) * 180 / math.pi * 3600
        return sep > 1e-6 * max(size, scale_as)

    def finding_match(self, finding, violation):
        """F2 (fixed in 23f75f4; matters only if the entry is ever re-opened): a compound node whose non-empty dictionaries
        came back EMPTY, or the membership change that is exactly explained by the lost include flag.  With the entry
        `fixed`, a regression is a VIOLATION (corpus/C06/f2_compound_meta.json replays the original witness first)."""
        if finding.get('id') == 'F204':
            return violation.get('kind') == 'foreign_frame_size_changed' and violation.get('f204_class') is True
        if finding.get('id') == 'F203':
            return violation.get('kind') == 'sky_contains_scalar_for_array' and violation.get('f203_class') is True
        return (finding.get('id') == 'F2' and violation.get('f2_class') is True
                and violation.get('kind') in ('compound_meta_lost', 'compound_membership_changed'))

    def nontrivial(self, case, real):
        if 'exc' in real or not real.get('finite', True):
            return False
        return region_size(real['start']) > 0 or len(set(real.get('contains_pix') or [])) == 2

    def bucket(self, case, real):
        if isinstance(real, dict) and not real.get('finite', True):
            return f"{case['kind']}/outside-wcs-domain"
        h = case.get('history')
        return f"{case['kind']}/{case['region']['kind']}/{case['wcs']['proj']}/{'history-' + h['mode'] if h else 'fresh'}"


def min_dim(d):
    """smallest length (pixels) of a regiongen-style pixel description: the scale on which a position error matters."""
    if d['kind'] == 'compound':
        return min(min_dim(d['a']), min_dim(d['b']))
    vals = [float(d[k]) for k in ('r', 'w', 'h', 'r1', 'w1', 'h1') if k in d]
    if d['kind'] in ('circle_annulus',):
        vals.append(float(d['r2']) - float(d['r1']))
    if d['kind'] in ('ellipse_annulus', 'rectangle_annulus'):
        vals += [float(d['w2']) - float(d['w1']), float(d['h2']) - float(d['h1'])]
    return min(vals) if vals else G.approx_size(d)


def band_for(case, d):
    """membership is compared only beyond this relative distance from the boundary: 1e-6, or more when the region is so
    small that the rounding of sky coordinates stored in degrees (a few ulp of 360 deg = 3e-13 deg, i.e. 3e-13/scale
    pixels) is a larger fraction of its smallest dimension."""
    err_px = 3e-13 / case['wcs']['scale']
    return max(BAND, Fraction(err_px / max(min_dim(d), 1e-300)))


def G_desc(d, drop_compound_include=False):
    """regiongen-style description (include flags only) of a C06 pixel description; with
    `drop_compound_include` every compound node's include flag is reset (what F2 does)."""
    if d['kind'] == 'compound':
        return {'kind': 'compound', 'op': d['op'], 'a': G_desc(d['a'], drop_compound_include), 'b': G_desc(d['b'], drop_compound_include),
                'include': 'absent' if drop_compound_include else eff_meta(d)['include']}
    out = {k: v for k, v in d.items() if k not in ('meta', 'visual')}
    out['include'] = d['meta']['include']
    return out
